package main

// C16: the join-server handler, driven through http.Handler.ServeHTTP (httptest recorder).
//
// jsreq <J|R> <known> <nwkKey> <appKey> <joinNonce> s<sender> s<receiver> <txid> <phy> <devEUI> <devAddr>
//       <optneg> <rx2dr> <rx1off> <rxdelay> <cflist> <nsKEK> <asLabel> <asKEK>
//   => ok <http code> <ResultCode> s<sender> s<receiver> <txid> <MessageType> <phy> <SNwkSIntKey> <FNwkSIntKey> <NwkSEncKey> <NwkSKey> <AppSKey>
//   each key: - (absent) or <label present 0|1>:x<AESKey>
// jsconc <n> | <jsreq args> | <jsreq args> ...  : the same requests through ONE handler from n goroutines at once;
//   => ok same  when every concurrent answer equals the sequential one

import (
	"bytes"
	"encoding/json"
	"fmt"
	"net/http/httptest"
	"strings"
	"sync"

	lw "github.com/brocaar/lorawan"
	"github.com/brocaar/lorawan/backend"
	"github.com/brocaar/lorawan/backend/joinserver"
)

type jsRequest struct {
	rejoin     bool
	known      bool
	lookupFail int // 1: GetKEKByLabel(SenderID), 2: GetASKEKLabelByDevEUI, 3: GetKEKByLabel(AS label) return an error
	storeFail  bool // GetDeviceKeysByDevEUI returns an error other than ErrDevEUINotFound
	nwkKey     lw.AES128Key
	appKey     lw.AES128Key
	nonce      int
	sender     string
	receiver   string
	txid       uint32
	phy        []byte
	devEUI     lw.EUI64
	devAddr    lw.DevAddr
	dls        lw.DLSettings
	rxDelay    int
	cfList     []byte
	nsKEK      []byte
	asLabel    bool
	asKEK      []byte
}

func parseJSRequest(r *tokReader) (*jsRequest, error) {
	q := &jsRequest{}
	k, err := r.next()
	if err != nil {
		return nil, err
	}
	q.rejoin = k == "R"
	// 0 = unknown device, 1 = known, 2..4 = known, but the KEK / label lookup number (known - 1) fails,
	// 5 = the device-key store itself fails (an error other than "not found")
	kv, err := r.u64()
	if err != nil {
		return nil, err
	}
	if kv > 5 {
		return nil, fmt.Errorf("known flag")
	}
	q.known = kv >= 1
	if kv >= 2 && kv <= 4 {
		q.lookupFail = int(kv - 1)
	}
	q.storeFail = kv == 5
	if q.nwkKey, err = r.key(); err != nil {
		return nil, err
	}
	if q.appKey, err = r.key(); err != nil {
		return nil, err
	}
	n, err := r.i64()
	if err != nil {
		return nil, err
	}
	q.nonce = int(n)
	s, err := r.next()
	if err != nil || !strings.HasPrefix(s, "s") {
		return nil, fmt.Errorf("sender")
	}
	q.sender = s[1:]
	s, err = r.next()
	if err != nil || !strings.HasPrefix(s, "s") {
		return nil, fmt.Errorf("receiver")
	}
	q.receiver = s[1:]
	t, err := r.u64()
	if err != nil {
		return nil, err
	}
	q.txid = uint32(t)
	if q.phy, err = r.hex(); err != nil {
		return nil, err
	}
	b, err := r.hex()
	if err != nil || len(b) != 8 {
		return nil, fmt.Errorf("devEUI")
	}
	copy(q.devEUI[:], b)
	b, err = r.hex()
	if err != nil || len(b) != 4 {
		return nil, fmt.Errorf("devAddr")
	}
	copy(q.devAddr[:], b)
	if q.dls.OptNeg, err = r.boolean(); err != nil {
		return nil, err
	}
	v, err := r.u64()
	if err != nil {
		return nil, err
	}
	q.dls.RX2DataRate = uint8(v)
	if v, err = r.u64(); err != nil {
		return nil, err
	}
	q.dls.RX1DROffset = uint8(v)
	if n, err = r.i64(); err != nil {
		return nil, err
	}
	q.rxDelay = int(n)
	if q.cfList, err = r.hex(); err != nil {
		return nil, err
	}
	if q.nsKEK, err = r.hex(); err != nil {
		return nil, err
	}
	if q.asLabel, err = r.boolean(); err != nil {
		return nil, err
	}
	if q.asKEK, err = r.hex(); err != nil {
		return nil, err
	}
	return q, nil
}

const jsASLabel = "as-kek-label"

// one handler serving a set of requests: devices keyed by DevEUI, KEKs by label
func newJSHandler(reqs []*jsRequest) (*jsHandlerEnv, error) {
	env := &jsHandlerEnv{devices: map[lw.EUI64]joinserver.DeviceKeys{}, keks: map[string][]byte{}, asLabels: map[lw.EUI64]string{}, failKEK: map[string]bool{}, failLabel: map[lw.EUI64]bool{}, failDev: map[lw.EUI64]bool{}}
	for _, q := range reqs {
		if q.known {
			env.devices[q.devEUI] = joinserver.DeviceKeys{DevEUI: q.devEUI, NwkKey: q.nwkKey, AppKey: q.appKey, JoinNonce: q.nonce}
		}
		if len(q.nsKEK) > 0 {
			env.keks[q.sender] = q.nsKEK
		}
		l := jsASLabel + "-" + q.devEUI.String()
		if q.asLabel {
			env.asLabels[q.devEUI] = l
			if len(q.asKEK) > 0 {
				env.keks[l] = q.asKEK
			}
		}
		if q.storeFail {
			env.failDev[q.devEUI] = true
		}
		switch q.lookupFail {
		case 1:
			env.failKEK[q.sender] = true
		case 2:
			env.failLabel[q.devEUI] = true
		case 3:
			env.asLabels[q.devEUI] = l
			env.failKEK[l] = true
		}
	}
	h, err := joinserver.NewHandler(joinserver.HandlerConfig{
		GetDeviceKeysByDevEUIFunc: func(e lw.EUI64) (joinserver.DeviceKeys, error) {
			if env.failDev[e] {
				return joinserver.DeviceKeys{}, fmt.Errorf("device store unavailable")
			}
			if d, ok := env.devices[e]; ok {
				return d, nil
			}
			return joinserver.DeviceKeys{}, joinserver.ErrDevEUINotFound
		},
		GetKEKByLabelFunc: func(l string) ([]byte, error) {
			if env.failKEK[l] {
				return nil, fmt.Errorf("kek store unavailable")
			}
			return env.keks[l], nil
		},
		GetASKEKLabelByDevEUIFunc: func(e lw.EUI64) (string, error) {
			if env.failLabel[e] {
				return "", fmt.Errorf("label store unavailable")
			}
			return env.asLabels[e], nil
		},
	})
	if err != nil {
		return nil, err
	}
	env.serve = func(body []byte) (int, []byte) {
		rec := httptest.NewRecorder()
		h.ServeHTTP(rec, httptest.NewRequest("POST", "/", bytes.NewReader(body)))
		return rec.Code, rec.Body.Bytes()
	}
	return env, nil
}

type jsHandlerEnv struct {
	failDev   map[lw.EUI64]bool
	failKEK   map[string]bool
	failLabel map[lw.EUI64]bool
	devices   map[lw.EUI64]joinserver.DeviceKeys
	keks      map[string][]byte
	asLabels  map[lw.EUI64]string
	serve     func(body []byte) (int, []byte)
}

func (q *jsRequest) body() ([]byte, error) {
	base := backend.BasePayload{ProtocolVersion: backend.ProtocolVersion1_0, SenderID: q.sender, ReceiverID: q.receiver, TransactionID: q.txid}
	if q.rejoin {
		base.MessageType = backend.RejoinReq
		return json.Marshal(backend.RejoinReqPayload{BasePayload: base, MACVersion: "1.1.0", PHYPayload: q.phy, DevEUI: q.devEUI, DevAddr: q.devAddr,
			DLSettings: q.dls, RxDelay: q.rxDelay, CFList: q.cfList})
	}
	base.MessageType = backend.JoinReq
	return json.Marshal(backend.JoinReqPayload{BasePayload: base, MACVersion: "1.0.3", PHYPayload: q.phy, DevEUI: q.devEUI, DevAddr: q.devAddr,
		DLSettings: q.dls, RxDelay: q.rxDelay, CFList: q.cfList})
}

func fmtEnvelope(k *backend.KeyEnvelope) string {
	if k == nil {
		return "-"
	}
	return fmt.Sprintf("%d:%s", b2i(k.KEKLabel != ""), hx(k.AESKey))
}

func fmtJSAnswer(code int, body []byte) string {
	// JoinAnsPayload and RejoinAnsPayload have the same fields; an error without base payload is a bare Result
	var a backend.JoinAnsPayload
	if err := json.Unmarshal(body, &a); err != nil {
		return fmt.Sprintf("%d UNPARSABLE", code)
	}
	if a.MessageType == "" {
		var res backend.Result
		json.Unmarshal(body, &res)
		return fmt.Sprintf("%d %s s s 0 - x - - - - -", code, res.ResultCode)
	}
	return fmt.Sprintf("%d %s s%s s%s %d %s %s %s %s %s %s %s", code, a.Result.ResultCode, a.SenderID, a.ReceiverID, a.TransactionID, a.MessageType,
		hx(a.PHYPayload), fmtEnvelope(a.SNwkSIntKey), fmtEnvelope(a.FNwkSIntKey), fmtEnvelope(a.NwkSEncKey), fmtEnvelope(a.NwkSKey), fmtEnvelope(a.AppSKey))
}

func init() {
	opTable["jsreq"] = func(r *tokReader) (string, error) {
		q, err := parseJSRequest(r)
		if err != nil {
			return "", err
		}
		env, err := newJSHandler([]*jsRequest{q})
		if err != nil {
			return "", err
		}
		b, e := q.body()
		if e != nil {
			return resERR, nil // the request itself cannot be expressed in JSON (e.g. DLSettings out of range)
		}
		code, out := env.serve(b)
		return okStr(fmtJSAnswer(code, out)), nil
	}
	// jshome <known> x<devEUI> x<netID> s<sender> s<receiver> <txid>: HomeNSReq
	opTable["jshome"] = func(r *tokReader) (string, error) {
		known, err := r.boolean()
		if err != nil {
			return "", err
		}
		e, err := r.hex()
		if err != nil || len(e) != 8 {
			return "", fmt.Errorf("devEUI")
		}
		n, err := r.hex()
		if err != nil || len(n) != 3 {
			return "", fmt.Errorf("netID")
		}
		s1, err := r.next()
		if err != nil || !strings.HasPrefix(s1, "s") {
			return "", fmt.Errorf("sender")
		}
		s2, err := r.next()
		if err != nil || !strings.HasPrefix(s2, "s") {
			return "", fmt.Errorf("receiver")
		}
		tx, err := r.u64()
		if err != nil {
			return "", err
		}
		var devEUI lw.EUI64
		copy(devEUI[:], e)
		var netID lw.NetID
		copy(netID[:], n)
		h, herr := joinserver.NewHandler(joinserver.HandlerConfig{
			GetDeviceKeysByDevEUIFunc: func(lw.EUI64) (joinserver.DeviceKeys, error) {
				return joinserver.DeviceKeys{}, joinserver.ErrDevEUINotFound
			},
			GetHomeNetIDByDevEUIFunc: func(x lw.EUI64) (lw.NetID, error) {
				if known && x == devEUI {
					return netID, nil
				}
				return lw.NetID{}, joinserver.ErrDevEUINotFound
			},
		})
		if herr != nil {
			return "", herr
		}
		body, _ := json.Marshal(backend.HomeNSReqPayload{BasePayload: backend.BasePayload{ProtocolVersion: backend.ProtocolVersion1_0, SenderID: s1[1:], ReceiverID: s2[1:],
			TransactionID: uint32(tx), MessageType: backend.HomeNSReq}, DevEUI: devEUI})
		rec := httptest.NewRecorder()
		h.ServeHTTP(rec, httptest.NewRequest("POST", "/", bytes.NewReader(body)))
		var a backend.HomeNSAnsPayload
		if e := json.Unmarshal(rec.Body.Bytes(), &a); e != nil {
			return okStr(fmt.Sprintf("%d UNPARSABLE", rec.Code)), nil
		}
		return okStr(fmt.Sprintf("%d %s s%s s%s %d %s %s", rec.Code, a.Result.ResultCode, a.SenderID, a.ReceiverID, a.TransactionID, a.MessageType, hx(a.HNetID[:]))), nil
	}
	// jsraw x<body>: any request body (malformed JSON, unknown MessageType): the answer is a bare Result
	opTable["jsraw"] = func(r *tokReader) (string, error) {
		b, err := r.hex()
		if err != nil {
			return "", err
		}
		env, e := newJSHandler(nil)
		if e != nil {
			return "", e
		}
		code, out := env.serve(b)
		var res backend.Result
		if e := json.Unmarshal(out, &res); e != nil {
			return okStr(fmt.Sprintf("%d UNPARSABLE", code)), nil
		}
		return okStr(fmt.Sprintf("%d %s", code, res.ResultCode)), nil
	}
	opTable["jsconc"] = func(r *tokReader) (string, error) {
		n, err := r.u64()
		if err != nil {
			return "", err
		}
		var reqs []*jsRequest
		for {
			s, err := r.next()
			if err != nil {
				break
			}
			if s != "|" {
				return "", fmt.Errorf("expected |")
			}
			q, err := parseJSRequest(r)
			if err != nil {
				return "", err
			}
			reqs = append(reqs, q)
		}
		if len(reqs) == 0 {
			return "", fmt.Errorf("no requests")
		}
		env, err := newJSHandler(reqs)
		if err != nil {
			return "", err
		}
		var bodies [][]byte
		var want []string
		for _, q := range reqs {
			b, e := q.body()
			if e != nil {
				return resERR, nil
			}
			bodies = append(bodies, b)
			c, out := env.serve(b)
			want = append(want, fmtJSAnswer(c, out))
		}
		var wg sync.WaitGroup
		var mu sync.Mutex
		diff := ""
		for g := 0; g < int(n); g++ {
			wg.Add(1)
			go func(g int) {
				defer wg.Done()
				for k := 0; k < len(bodies); k++ {
					i := (k + g) % len(bodies)
					c, out := env.serve(bodies[i])
					if got := fmtJSAnswer(c, out); got != want[i] {
						mu.Lock()
						diff = fmt.Sprintf("request %d", i)
						mu.Unlock()
					}
				}
			}(g)
		}
		wg.Wait()
		if diff != "" {
			return okStr("DIFF " + diff), nil
		}
		return okStr("same"), nil
	}
}
