// lwrace — C10: concurrent decoding, MIC / crypto operations on distinct values, registration of proprietary MAC
// commands, band instances and join-server requests, run under the Go race detector (`go build -race`).
// Any data race makes the race runtime print a report and exit with status 66.
package main

import (
	"bytes"
	"encoding/json"
	"fmt"
	"io/ioutil"
	"log"
	"math/rand"
	"net/http/httptest"
	"os"
	"strconv"
	"sync"

	lw "github.com/brocaar/lorawan"
	"github.com/brocaar/lorawan/applayer/clocksync"
	"github.com/brocaar/lorawan/applayer/multicastsetup"
	"github.com/brocaar/lorawan/backend"
	"github.com/brocaar/lorawan/backend/joinserver"
	"github.com/brocaar/lorawan/band"
)

func frame(r *rand.Rand) []byte {
	var key lw.AES128Key
	r.Read(key[:])
	fport := uint8(1 + r.Intn(200))
	data := make([]byte, r.Intn(40))
	r.Read(data)
	p := lw.PHYPayload{
		MHDR: lw.MHDR{MType: lw.MType(2 + r.Intn(4)), Major: lw.LoRaWANR1},
		MACPayload: &lw.MACPayload{
			FHDR:       lw.FHDR{DevAddr: lw.DevAddr{1, 2, 3, byte(r.Intn(256))}, FCnt: r.Uint32(), FOpts: []lw.Payload{&lw.MACCommand{CID: lw.LinkCheckReq}}},
			FPort:      &fport,
			FRMPayload: []lw.Payload{&lw.DataPayload{Bytes: data}},
		},
	}
	b, err := p.MarshalBinary()
	if err != nil {
		panic(err)
	}
	return b
}

func main() {
	log.SetOutput(ioutil.Discard)
	n, rounds := 8, 300
	if len(os.Args) > 1 {
		n, _ = strconv.Atoi(os.Args[1])
	}
	if len(os.Args) > 2 {
		rounds, _ = strconv.Atoi(os.Args[2])
	}
	seed := int64(1)
	if len(os.Args) > 3 {
		seed, _ = strconv.ParseInt(os.Args[3], 10, 64)
	}
	// shared READ-ONLY inputs: every goroutine decodes from the same buffers (decoders must not write to them)
	src := rand.New(rand.NewSource(seed))
	var frames [][]byte
	for i := 0; i < 64; i++ {
		frames = append(frames, frame(src))
	}
	dk := joinserver.DeviceKeys{DevEUI: lw.EUI64{1, 2, 3, 4, 5, 6, 7, 8}, NwkKey: lw.AES128Key{1}, AppKey: lw.AES128Key{2}, JoinNonce: 7}
	h, _ := joinserver.NewHandler(joinserver.HandlerConfig{
		GetDeviceKeysByDevEUIFunc: func(e lw.EUI64) (joinserver.DeviceKeys, error) { return dk, nil },
	})
	jr := lw.PHYPayload{MHDR: lw.MHDR{MType: lw.JoinRequest, Major: lw.LoRaWANR1}, MACPayload: &lw.JoinRequestPayload{JoinEUI: lw.EUI64{8}, DevEUI: dk.DevEUI, DevNonce: 5}}
	jr.SetUplinkJoinMIC(dk.NwkKey)
	jrb, _ := jr.MarshalBinary()
	body, _ := json.Marshal(backend.JoinReqPayload{BasePayload: backend.BasePayload{ProtocolVersion: "1.0", SenderID: "010203", ReceiverID: "0800000000000000", MessageType: backend.JoinReq, TransactionID: 1},
		MACVersion: "1.0.3", PHYPayload: jrb, DevEUI: dk.DevEUI, DevAddr: lw.DevAddr{1, 2, 3, 4}, RxDelay: 1})

	var wg sync.WaitGroup
	for g := 0; g < n; g++ {
		wg.Add(1)
		go func(g int) {
			defer wg.Done()
			r := rand.New(rand.NewSource(seed*1000 + int64(g)))
			var key lw.AES128Key
			r.Read(key[:])
			b, _ := band.GetConfig(band.EU868, false, lw.DwellTimeNoLimit)
			for i := 0; i < rounds; i++ {
				// decode from shared buffers, then MIC / crypto on the goroutine's own value
				var p lw.PHYPayload
				if err := p.UnmarshalBinary(frames[r.Intn(len(frames))]); err != nil {
					panic(err)
				}
				p.SetUplinkDataMIC(lw.LoRaWAN1_1, 1, 2, 3, key, key)
				p.ValidateUplinkDataMIC(lw.LoRaWAN1_1, 1, 2, 3, key, key)
				p.DecryptFOpts(key)
				p.DecryptFRMPayload(key)
				p.MarshalBinary()
				// registry: reads race with registrations
				lw.GetMACPayloadAndSize(r.Intn(2) == 0, lw.CID(r.Intn(256)))
				if i%7 == g%7 {
					lw.RegisterProprietaryMACCommand(r.Intn(2) == 0, lw.CID(0x80+r.Intn(0x60)), r.Intn(4))
				}
				var m lw.MACPayload
				m.UnmarshalBinary(true, frames[r.Intn(len(frames))][1:10])
				// band: every goroutine mutates its OWN instance
				b.AddChannel(uint32(867100000+200000*(i%5)), 0, 5)
				b.DisableUplinkChannelIndex(i % 3)
				b.EnableUplinkChannelIndex(i % 3)
				b.GetLinkADRReqPayloadsForEnabledUplinkChannelIndices([]int{0, 1, 2})
				// application layer
				var cs clocksync.Commands
				cs.UnmarshalBinary(true, []byte{0, 1, 2, 1, 1, 2, 3, 4, 5})
				var mc multicastsetup.Commands
				mc.UnmarshalBinary(true, []byte{1, 0x11, 1, 1, 2, 3, 4})
				multicastsetup.GetMcAppSKey(key, lw.DevAddr{1, 2, 3, 4})
				// join-server: one handler, concurrent requests
				if i%10 == 0 {
					rec := httptest.NewRecorder()
					h.ServeHTTP(rec, httptest.NewRequest("POST", "/", bytes.NewReader(body)))
					if rec.Code != 200 {
						panic("join-server status")
					}
				}
			}
		}(g)
	}
	wg.Wait()
	fmt.Println("race-run complete: goroutines", n, "rounds", rounds)
}
