package main

// SplitMix64: every random choice of the harness derives from one state seeded by VERIF_SEED.
type RNG struct{ s uint64 }

func NewRNG(seed uint64) *RNG { return &RNG{s: seed*0x9E3779B97F4A7C15 + 0x1234567} }

func (r *RNG) U64() uint64 {
	r.s += 0x9E3779B97F4A7C15
	z := r.s
	z = (z ^ (z >> 30)) * 0xBF58476D1CE4E5B9
	z = (z ^ (z >> 27)) * 0x94D049BB133111EB
	return z ^ (z >> 31)
}
func (r *RNG) Intn(n int) int {
	if n <= 0 {
		return 0
	}
	return int(r.U64() % uint64(n))
}
func (r *RNG) Bool() bool   { return r.U64()&1 == 1 }
func (r *RNG) Byte() byte   { return byte(r.U64()) }
func (r *RNG) U32() uint32  { return uint32(r.U64()) }
func (r *RNG) U16() uint16  { return uint16(r.U64()) }
func (r *RNG) Chance(num, den int) bool { return r.Intn(den) < num }
func (r *RNG) Bytes(n int) []byte {
	b := make([]byte, n)
	for i := range b {
		b[i] = r.Byte()
	}
	return b
}

// Pick returns one of the given ints.
func (r *RNG) Pick(xs ...int) int { return xs[r.Intn(len(xs))] }

// U32Edge returns a uint32 biased to boundary values.
func (r *RNG) U32Edge() uint32 {
	switch r.Intn(6) {
	case 0:
		return uint32(r.Pick(0, 1, 0xffff, 0x10000, 0x10001, 0xffffffff, 0xfffffffe, 0x7fffffff, 0x80000000, 0xff, 0x100))
	case 1:
		return uint32(r.Intn(0x20000))
	default:
		return r.U32()
	}
}
