package main

// C09 (decoders are total and do not write to their input) and C10 (no aliasing, no hidden shared state).
//
// Every input buffer of every op is a guardedBuf (canon.go); for the ops in noWriteOps a changed buffer or canary
// appends " WROTE-INPUT" to the result. The ops below add the observations C10 needs: overwrite the input after
// decoding / the output after encoding and look again, guard bytes around slices handed to the encryption functions,
// decode into a used value vs a fresh one, two band instances.

import (
	"bytes"
	"encoding/json"
	"fmt"
	"reflect"
	"strings"

	lw "github.com/brocaar/lorawan"
	"github.com/brocaar/lorawan/band"
)

var noWriteOps = map[string]bool{
	"phydec": true, "phytextdec": true, "macdec": true, "macdecinto": true, "stream": true, "phycanon": true,
	"appdec": true, "appdecs": true, "hexdec": true, "timedec": true, "freqdec": true, "pctdec": true, "kunwrap": true,
	"cflistdec": true, "cmddec": true, "rawcrypt": true, "rawja": true, "jsonpl": true, "idparse": true, "subdec": true,
	"alias_dec": true, "alias_prop": true, "alias_data": true, "alias_app": true,
	"reuse_phy": true, "reuse_macpl": true, "reuse_ja": true, "reuse_cfl": true, "reuse_app": true, "reuse_apppl": true,
	"valup": true, "valupf": true, "valdown": true, "valjoin": true, "valja": true,
}

func flipAll(b []byte) {
	for i := range b {
		b[i] = ^b[i]
	}
}

func sameOrChanged(a, b string) string {
	if a == b {
		return okStr("same")
	}
	return okStr("CHANGED")
}

// allPayloads lists every Payload object reachable from a frame.
func allPayloads(p *lw.PHYPayload) []lw.Payload {
	var out []lw.Payload
	if p.MACPayload == nil {
		return out
	}
	out = append(out, p.MACPayload)
	if m, ok := p.MACPayload.(*lw.MACPayload); ok {
		out = append(out, m.FHDR.FOpts...)
		out = append(out, m.FRMPayload...)
	}
	return out
}

func fmtAny(v interface{}) string {
	b, err := json.Marshal(v)
	if err != nil {
		return fmt.Sprintf("%#v", v)
	}
	return string(b)
}

func init() {
	// ---- C09 entry points not covered by other ops ----
	opTable["cflistdec"] = func(r *tokReader) (string, error) {
		b, err := r.hex()
		if err != nil {
			return "", err
		}
		var l lw.CFList
		if e := l.UnmarshalBinary(b); e != nil {
			return resERR, nil
		}
		return okStr(fmtCFList(&l)), nil
	}
	// cmddec <uplink> x<bytes>: MACCommand.UnmarshalBinary
	opTable["cmddec"] = func(r *tokReader) (string, error) {
		up, err := r.boolean()
		if err != nil {
			return "", err
		}
		b, err := r.hex()
		if err != nil {
			return "", err
		}
		var c lw.MACCommand
		if e := c.UnmarshalBinary(up, b); e != nil {
			return resERR, nil
		}
		return okStr(fmtItem(&c)), nil
	}
	// rawcrypt <key> x<frame>: decode, then decrypt-then-decode FOpts and FRMPayload with any key
	opTable["rawcrypt"] = func(r *tokReader) (string, error) {
		k, err := r.key()
		if err != nil {
			return "", err
		}
		b, err := r.hex()
		if err != nil {
			return "", err
		}
		var p lw.PHYPayload
		if e := p.UnmarshalBinary(b); e != nil {
			return resERR, nil
		}
		res := []string{}
		if e := p.DecryptFOpts(k); e != nil {
			res = append(res, "fopts-ERR")
		} else {
			res = append(res, "fopts-ok")
		}
		if e := p.DecryptFRMPayload(k); e != nil {
			res = append(res, "frm-ERR")
		} else {
			res = append(res, "frm-ok")
		}
		out := okStr(strings.Join(res, " ") + " " + fmtFrame(&p))
		// a second decode of what is already decoded (commands in place of raw bytes): value or error, never a panic
		p.DecodeFOptsToMACCommands()
		p.DecodeFRMPayloadToMACCommands()
		p.DecodeFOptsToMACCommands()
		return out, nil
	}
	// rawja <key> x<frame>: decode, then join-accept decrypt with any key
	opTable["rawja"] = func(r *tokReader) (string, error) {
		k, err := r.key()
		if err != nil {
			return "", err
		}
		b, err := r.hex()
		if err != nil {
			return "", err
		}
		var p lw.PHYPayload
		if e := p.UnmarshalBinary(b); e != nil {
			return resERR, nil
		}
		if e := p.DecryptJoinAcceptPayload(k); e != nil {
			return okStr("ja-ERR"), nil
		}
		return okStr(fmtFrame(&p)), nil
	}
	// subdec <kind> <up> x<bytes>: every exported binary / text decoder of a sub-structure called directly (the frame decoders
	// only ever hand them slices of the right length); value or error are both fine, the verdict is about PANIC / HANG
	opTable["subdec"] = func(r *tokReader) (string, error) {
		kind, err := r.next()
		if err != nil {
			return "", err
		}
		up, err := r.u64()
		if err != nil {
			return "", err
		}
		b, err := r.hex()
		if err != nil {
			return "", err
		}
		f, ok := subDecoders[kind]
		if !ok {
			return "", fmt.Errorf("subdec kind")
		}
		_ = f(up != 0, b)
		return okStr("done"), nil
	}
	// jsonpl <type index> x<text>: json.Unmarshal into a backend payload struct; value or error, both fine
	opTable["jsonpl"] = func(r *tokReader) (string, error) {
		ti, err := r.u64()
		if err != nil {
			return "", err
		}
		b, err := r.hex()
		if err != nil {
			return "", err
		}
		if int(ti) >= len(backendPayloadTypes) {
			return "", fmt.Errorf("type index")
		}
		v := reflect.New(backendPayloadTypes[ti])
		_ = json.Unmarshal(b, v.Interface())
		return okStr("done"), nil
	}

	// ---- C10: aliasing of the decoder's input ----
	opTable["alias_dec"] = func(r *tokReader) (string, error) {
		b, err := r.hex()
		if err != nil {
			return "", err
		}
		buf := append(make([]byte, 0, len(b)+8), b...) // the caller's reusable read buffer
		var p lw.PHYPayload
		if e := p.UnmarshalBinary(buf); e != nil {
			return resERR, nil
		}
		s1 := fmtFrame(&p)
		flipAll(buf)
		return sameOrChanged(s1, fmtFrame(&p)), nil
	}
	opTable["alias_prop"] = func(r *tokReader) (string, error) {
		b, err := r.hex()
		if err != nil {
			return "", err
		}
		buf := append([]byte{}, b...)
		var p lw.ProprietaryMACCommandPayload
		if e := p.UnmarshalBinary(buf); e != nil {
			return resERR, nil
		}
		s1 := hx(p.Bytes)
		flipAll(buf)
		return sameOrChanged(s1, hx(p.Bytes)), nil
	}
	opTable["alias_data"] = func(r *tokReader) (string, error) {
		b, err := r.hex()
		if err != nil {
			return "", err
		}
		buf := append([]byte{}, b...)
		var p lw.DataPayload
		if e := p.UnmarshalBinary(true, buf); e != nil {
			return resERR, nil
		}
		s1 := hx(p.Bytes)
		flipAll(buf)
		return sameOrChanged(s1, hx(p.Bytes)), nil
	}
	opTable["alias_app"] = func(r *tokReader) (string, error) {
		pk, err := r.appPkg()
		if err != nil {
			return "", err
		}
		up, err := r.boolean()
		if err != nil {
			return "", err
		}
		b, err := r.hex()
		if err != nil {
			return "", err
		}
		buf := append([]byte{}, b...)
		cs, e := pk.decSeq(up, buf)
		if e != nil {
			return resERR, nil
		}
		s1 := fmtAppCmds(cs)
		flipAll(buf)
		return sameOrChanged(s1, fmtAppCmds(cs)), nil
	}
	// alias_crypt <key> <frame>: PHYPayload.EncryptFOpts / EncryptFRMPayload / DecryptFRMPayload must leave the byte slices the caller put
	// into the frame as they were, and the frame must not keep using them afterwards
	opTable["alias_crypt"] = func(r *tokReader) (string, error) {
		k, err := r.key()
		if err != nil {
			return "", err
		}
		p, err := parseFrame(r)
		if err != nil {
			return "", err
		}
		macPL, isData := p.MACPayload.(*lw.MACPayload)
		if !isData {
			return okStr("same"), nil
		}
		var mine, before [][]byte
		for _, pl := range macPL.FRMPayload {
			if v, ok := pl.(*lw.DataPayload); ok {
				mine = append(mine, v.Bytes)
				before = append(before, append([]byte{}, v.Bytes...))
			}
		}
		untouched := func() bool {
			for i := range mine {
				if !bytes.Equal(mine[i], before[i]) {
					return false
				}
			}
			return true
		}
		res := "same"
		encErr := p.EncryptFRMPayload(k)
		if !untouched() {
			res = "CHANGED caller-buffer-overwritten"
		}
		if encErr == nil && len(mine) > 0 && res == "same" {
			// the encrypted frame owns its bytes: overwriting the caller's slices afterwards must not show in it
			s1 := fmtFrame(p)
			for _, b := range mine {
				flipAll(b)
			}
			if fmtFrame(p) != s1 {
				res = "CHANGED frame-keeps-using-caller-buffer"
			}
			for i := range mine {
				copy(mine[i], before[i])
			}
		}
		p.DecryptFRMPayload(k)
		return okStr(res), nil
	}
	// alias_enc <frame>: overwrite every encoder output (frame level, text level, every reachable payload) and look at the frame again
	opTable["alias_enc"] = func(r *tokReader) (string, error) {
		p, err := parseFrame(r)
		if err != nil {
			return "", err
		}
		s1 := fmtFrame(p)
		n := 0
		if out, e := p.MarshalBinary(); e == nil {
			flipAll(out)
			n++
		}
		if out, e := p.MarshalText(); e == nil {
			flipAll(out)
			n++
		}
		for _, pl := range allPayloads(p) {
			if out, e := pl.MarshalBinary(); e == nil {
				flipAll(out)
				n++
			}
		}
		_ = n
		return sameOrChanged(s1, fmtFrame(p)), nil
	}
	// ---- guard bytes around the slices handed to the exported encryption functions ----
	// guardfrm <key> <uplink> <devaddr> <fcnt> x<data>
	opTable["guardfrm"] = func(r *tokReader) (string, error) {
		k, err := r.key()
		if err != nil {
			return "", err
		}
		up, err := r.boolean()
		if err != nil {
			return "", err
		}
		a, err := r.u64()
		if err != nil {
			return "", err
		}
		c, err := r.u64()
		if err != nil {
			return "", err
		}
		d, err := r.hex()
		if err != nil {
			return "", err
		}
		var addr lw.DevAddr
		putBE(addr[:], a)
		g := r.inputs[len(r.inputs)-1] // the slice has 16 canary bytes of spare capacity behind it
		out, e := lw.EncryptFRMPayload(k, up, addr, uint32(c), d)
		if e != nil {
			return resERR, nil
		}
		state := "clean"
		for i := len(d); i < len(g.full); i++ {
			if g.full[i] != 0x5a {
				state = "DIRTY"
			}
		}
		return okStr(hx(out) + " " + state), nil
	}
	// guardfopts <key> <aFCntDown> <uplink> <devaddr> <fcnt> x<data>
	opTable["guardfopts"] = func(r *tokReader) (string, error) {
		k, err := r.key()
		if err != nil {
			return "", err
		}
		af, err := r.boolean()
		if err != nil {
			return "", err
		}
		up, err := r.boolean()
		if err != nil {
			return "", err
		}
		a, err := r.u64()
		if err != nil {
			return "", err
		}
		c, err := r.u64()
		if err != nil {
			return "", err
		}
		d, err := r.hex()
		if err != nil {
			return "", err
		}
		var addr lw.DevAddr
		putBE(addr[:], a)
		g := r.inputs[len(r.inputs)-1]
		out, e := lw.EncryptFOpts(k, af, up, addr, uint32(c), d)
		if e != nil {
			return resERR, nil
		}
		state := "clean"
		for i := len(d); i < len(g.full); i++ {
			if g.full[i] != 0x5a {
				state = "DIRTY"
			}
		}
		return okStr(hx(out) + " " + state), nil
	}
	// inspect <frame>: Validate* / Marshal* with arbitrary keys only inspect the frame
	opTable["inspect"] = func(r *tokReader) (string, error) {
		k, err := r.key()
		if err != nil {
			return "", err
		}
		p, err := parseFrame(r)
		if err != nil {
			return "", err
		}
		s1 := fmtFrame(p)
		p.MarshalBinary()
		p.MarshalText()
		p.MarshalJSON()
		p.ValidateUplinkDataMIC(lw.LoRaWAN1_1, 7, 2, 3, k, k)
		p.ValidateUplinkDataMICF(k)
		p.ValidateDownlinkDataMIC(lw.LoRaWAN1_1, 9, k)
		p.ValidateUplinkJoinMIC(k)
		p.ValidateDownlinkJoinMIC(lw.JoinRequestType, lw.EUI64{1, 2, 3, 4, 5, 6, 7, 8}, 77, k)
		return sameOrChanged(s1, fmtFrame(p)), nil
	}
	// ---- decode into a used value vs a fresh one ----
	opTable["reuse_phy"] = func(r *tokReader) (string, error) {
		b1, err := r.hex()
		if err != nil {
			return "", err
		}
		b2, err := r.hex()
		if err != nil {
			return "", err
		}
		var used, fresh lw.PHYPayload
		used.UnmarshalBinary(b1)
		e1 := used.UnmarshalBinary(b2)
		e2 := fresh.UnmarshalBinary(b2)
		if (e1 == nil) != (e2 == nil) {
			return okStr("DIFF error"), nil
		}
		if e2 != nil {
			return okStr("same"), nil
		}
		return sameOrChangedDiff(fmtFrame(&used), fmtFrame(&fresh)), nil
	}
	opTable["reuse_macpl"] = func(r *tokReader) (string, error) {
		up, err := r.boolean()
		if err != nil {
			return "", err
		}
		b1, err := r.hex()
		if err != nil {
			return "", err
		}
		b2, err := r.hex()
		if err != nil {
			return "", err
		}
		var used, fresh lw.MACPayload
		used.UnmarshalBinary(up, b1)
		e1 := used.UnmarshalBinary(up, b2)
		e2 := fresh.UnmarshalBinary(up, b2)
		if (e1 == nil) != (e2 == nil) {
			return okStr("DIFF error"), nil
		}
		if e2 != nil {
			return okStr("same"), nil
		}
		f := func(m *lw.MACPayload) string {
			return fmtFrame(&lw.PHYPayload{MHDR: lw.MHDR{MType: lw.UnconfirmedDataUp}, MACPayload: m})
		}
		return sameOrChangedDiff(f(&used), f(&fresh)), nil
	}
	opTable["reuse_ja"] = func(r *tokReader) (string, error) {
		b1, err := r.hex()
		if err != nil {
			return "", err
		}
		b2, err := r.hex()
		if err != nil {
			return "", err
		}
		var used, fresh lw.JoinAcceptPayload
		used.UnmarshalBinary(false, b1)
		e1 := used.UnmarshalBinary(false, b2)
		e2 := fresh.UnmarshalBinary(false, b2)
		if (e1 == nil) != (e2 == nil) {
			return okStr("DIFF error"), nil
		}
		if e2 != nil {
			return okStr("same"), nil
		}
		return sameOrChangedDiff(fmtAny(used), fmtAny(fresh)), nil
	}
	// reuse_cfl <0|1> x<b1> x<b2>: CFListChannelPayload / CFListChannelMaskPayload
	opTable["reuse_cfl"] = func(r *tokReader) (string, error) {
		mask, err := r.boolean()
		if err != nil {
			return "", err
		}
		b1, err := r.hex()
		if err != nil {
			return "", err
		}
		b2, err := r.hex()
		if err != nil {
			return "", err
		}
		var used, fresh lw.Payload
		if mask {
			used, fresh = &lw.CFListChannelMaskPayload{}, &lw.CFListChannelMaskPayload{}
		} else {
			used, fresh = &lw.CFListChannelPayload{}, &lw.CFListChannelPayload{}
		}
		used.UnmarshalBinary(false, b1)
		e1 := used.UnmarshalBinary(false, b2)
		e2 := fresh.UnmarshalBinary(false, b2)
		if (e1 == nil) != (e2 == nil) {
			return okStr("DIFF error"), nil
		}
		if e2 != nil {
			return okStr("same"), nil
		}
		return sameOrChangedDiff(fmtAny(used), fmtAny(fresh)), nil
	}
	// reuse_app <pkg> <uplink> x<b1> x<b2>: Commands.UnmarshalBinary into a used list
	opTable["reuse_app"] = func(r *tokReader) (string, error) {
		pk, err := r.appPkg()
		if err != nil {
			return "", err
		}
		up, err := r.boolean()
		if err != nil {
			return "", err
		}
		b1, err := r.hex()
		if err != nil {
			return "", err
		}
		b2, err := r.hex()
		if err != nil {
			return "", err
		}
		res, e := pk.reuseSeq(up, b1, b2)
		if e != nil {
			return "", e
		}
		return okStr(res), nil
	}
	// reuse_apppl <pkg> <uplink> <cid> x<b1> x<b2>: one payload value decoded twice
	opTable["reuse_apppl"] = func(r *tokReader) (string, error) {
		pk, err := r.appPkg()
		if err != nil {
			return "", err
		}
		up, err := r.boolean()
		if err != nil {
			return "", err
		}
		cid, err := r.u64()
		if err != nil {
			return "", err
		}
		b1, err := r.hex()
		if err != nil {
			return "", err
		}
		b2, err := r.hex()
		if err != nil {
			return "", err
		}
		used, ok := pk.get(up, byte(cid))
		fresh, _ := pk.get(up, byte(cid))
		if !ok || used == nil {
			return resERR, nil
		}
		used.UnmarshalBinary(b1)
		e1 := used.UnmarshalBinary(b2)
		e2 := fresh.UnmarshalBinary(b2)
		if (e1 == nil) != (e2 == nil) {
			return okStr("DIFF error"), nil
		}
		if e2 != nil {
			return okStr("same"), nil
		}
		return sameOrChangedDiff(fmtAppCmd(appCmd{byte(cid), used}), fmtAppCmd(appCmd{byte(cid), fresh})), nil
	}
	// bandiso <name> <rep> <dwell> <hist>: two instances from separate GetConfig calls share no mutable state
	opTable["bandiso"] = func(r *tokReader) (string, error) {
		name, err := r.next()
		if err != nil {
			return "", err
		}
		rep, err := r.boolean()
		if err != nil {
			return "", err
		}
		dw, err := r.u64()
		if err != nil {
			return "", err
		}
		hist, err := r.next()
		if err != nil {
			return "", err
		}
		a, e1 := band.GetConfig(band.Name(name), rep, lw.DwellTime(dw))
		b, e2 := band.GetConfig(band.Name(name), rep, lw.DwellTime(dw))
		if e1 != nil || e2 != nil {
			return resERR, nil
		}
		s1 := bandStateString(b)
		if _, e := applyHistory(a, hist); e != nil {
			return "", e
		}
		c, e3 := band.GetConfig(band.Name(name), rep, lw.DwellTime(dw))
		if e3 != nil {
			return resERR, nil
		}
		if s1 != bandStateString(b) {
			return okStr("CHANGED sibling"), nil
		}
		if s1 != bandStateString(c) {
			return okStr("CHANGED later-instance"), nil
		}
		return okStr("same"), nil
	}
}

func bandStateString(b band.Band) string {
	s, _ := band.VerifSnapshotOf(b)
	return fmt.Sprintf("up=%s down=%s all=%s std=%s cus=%s en=%s dis=%s drs=%s", chanList(s.UplinkChannels), chanList(s.DownlinkChannels),
		intList(b.GetUplinkChannelIndices()), intList(b.GetStandardUplinkChannelIndices()), intList(b.GetCustomUplinkChannelIndices()),
		intList(b.GetEnabledUplinkChannelIndices()), intList(b.GetDisabledUplinkChannelIndices()), intList(b.GetEnabledUplinkDataRates()))
}

func sameOrChangedDiff(used, fresh string) string {
	if used == fresh {
		return okStr("same")
	}
	return okStr("DIFF")
}

var subDecoderNames = []string{"MHDR", "FCtrl", "FHDR", "ChMask", "Redundancy", "DLSettings", "DLSettingsText", "Version", "ADRParam", "DevNonce", "JoinNonce",
	"DataPayload", "JoinRequest", "JoinAccept", "Rejoin02", "Rejoin1", "CFList", "CFListChannels", "CFListMasks", "MACPayload", "MACCommand", "DevAddr", "NetID", "EUI64", "AES128Key"}

var subDecoders = map[string]func(up bool, b []byte) error{
	"MHDR":           func(up bool, b []byte) error { var v lw.MHDR; return v.UnmarshalBinary(b) },
	"FCtrl":          func(up bool, b []byte) error { var v lw.FCtrl; return v.UnmarshalBinary(b) },
	"FHDR":           func(up bool, b []byte) error { var v lw.FHDR; return v.UnmarshalBinary(up, b) },
	"ChMask":         func(up bool, b []byte) error { var v lw.ChMask; return v.UnmarshalBinary(b) },
	"Redundancy":     func(up bool, b []byte) error { var v lw.Redundancy; return v.UnmarshalBinary(b) },
	"DLSettings":     func(up bool, b []byte) error { var v lw.DLSettings; return v.UnmarshalBinary(b) },
	"DLSettingsText": func(up bool, b []byte) error { var v lw.DLSettings; return v.UnmarshalText(b) },
	"Version":        func(up bool, b []byte) error { var v lw.Version; return v.UnmarshalBinary(b) },
	"ADRParam":       func(up bool, b []byte) error { var v lw.ADRParam; return v.UnmarshalBinary(b) },
	"DevNonce":       func(up bool, b []byte) error { var v lw.DevNonce; return v.UnmarshalBinary(b) },
	"JoinNonce":      func(up bool, b []byte) error { var v lw.JoinNonce; return v.UnmarshalBinary(b) },
	"DataPayload":    func(up bool, b []byte) error { var v lw.DataPayload; return v.UnmarshalBinary(up, b) },
	"JoinRequest":    func(up bool, b []byte) error { var v lw.JoinRequestPayload; return v.UnmarshalBinary(up, b) },
	"JoinAccept":     func(up bool, b []byte) error { var v lw.JoinAcceptPayload; return v.UnmarshalBinary(up, b) },
	"Rejoin02":       func(up bool, b []byte) error { var v lw.RejoinRequestType02Payload; return v.UnmarshalBinary(up, b) },
	"Rejoin1":        func(up bool, b []byte) error { var v lw.RejoinRequestType1Payload; return v.UnmarshalBinary(up, b) },
	"CFList":         func(up bool, b []byte) error { var v lw.CFList; return v.UnmarshalBinary(b) },
	"CFListChannels": func(up bool, b []byte) error { var v lw.CFListChannelPayload; return v.UnmarshalBinary(up, b) },
	"CFListMasks":    func(up bool, b []byte) error { var v lw.CFListChannelMaskPayload; return v.UnmarshalBinary(up, b) },
	"MACPayload":     func(up bool, b []byte) error { var v lw.MACPayload; return v.UnmarshalBinary(up, b) },
	"MACCommand":     func(up bool, b []byte) error { var v lw.MACCommand; return v.UnmarshalBinary(up, b) },
	"DevAddr":        func(up bool, b []byte) error { var v lw.DevAddr; return v.UnmarshalBinary(b) },
	"NetID":          func(up bool, b []byte) error { var v lw.NetID; return v.UnmarshalBinary(b) },
	"EUI64":          func(up bool, b []byte) error { var v lw.EUI64; return v.UnmarshalBinary(b) },
	"AES128Key":      func(up bool, b []byte) error { var v lw.AES128Key; return v.UnmarshalBinary(b) },
}
