package main

// Structure-aware value generators shared by the per-property op generators.

import (
	"fmt"
	"strconv"
	"strings"
	"time"

	lw "github.com/brocaar/lorawan"
)

// fieldDomain describes one integer field of a payload for generation.
type fieldDomain struct {
	lo, hi   int64 // inclusive range of the Go type
	slo, shi int64 // spec range (inclusive)
	kind     string // "", "freq", "freq24", "bool", "dur"
}

func u8(shi int64) fieldDomain  { return fieldDomain{0, 255, 0, shi, ""} }
func boolF() fieldDomain        { return fieldDomain{0, 1, 0, 1, "bool"} }
func freqF() fieldDomain        { return fieldDomain{0, 0xffffffff, 0, 1677721500, "freq"} }

var payloadDomains = map[string][]fieldDomain{
	"ResetIndPayload": {u8(7)}, "ResetConfPayload": {u8(7)}, "RekeyIndPayload": {u8(7)}, "RekeyConfPayload": {u8(7)},
	"LinkCheckAnsPayload":        {u8(255), u8(255)},
	"LinkADRReqPayload":          {u8(15), u8(15), {0, 65535, 0, 65535, ""}, u8(7), u8(15)},
	"LinkADRAnsPayload":          {boolF(), boolF(), boolF()},
	"DutyCycleReqPayload":        {u8(15)},
	"RXParamSetupReqPayload":     {freqF(), boolF(), u8(15), u8(7)},
	"RXParamSetupAnsPayload":     {boolF(), boolF(), boolF()},
	"DevStatusAnsPayload":        {u8(255), {-128, 127, -32, 31, ""}},
	"NewChannelReqPayload":       {u8(255), freqF(), u8(15), u8(15)},
	"NewChannelAnsPayload":       {boolF(), boolF()},
	"RXTimingSetupReqPayload":    {u8(15)},
	"TXParamSetupReqPayload":     {{-3, 40, 0, 1, ""}, {-3, 40, 0, 1, ""}, u8(15)},
	"DLChannelReqPayload":        {u8(255), freqF()},
	"DLChannelAnsPayload":        {boolF(), boolF()},
	"PingSlotInfoReqPayload":     {u8(7)},
	"BeaconFreqReqPayload":       {freqF()},
	"BeaconFreqAnsPayload":       {boolF()},
	"PingSlotChannelReqPayload":  {freqF(), u8(15)},
	"PingSlotChannelAnsPayload":  {boolF(), boolF()},
	"DeviceTimeAnsPayload":       {{-1 << 63, 1<<63 - 1, 0, 4294967296*1000000000 - 1, "dur"}},
	"ADRParamSetupReqPayload":    {u8(15), u8(15)},
	"ForceRejoinReqPayload":      {u8(7), u8(7), u8(2), u8(15)},
	"RejoinParamSetupReqPayload": {u8(15), u8(15)},
	"RejoinParamSetupAnsPayload": {boolF()},
	"DeviceModeIndPayload":       {u8(255)}, "DeviceModeConfPayload": {u8(255)},
}

// genField draws a field value. mode: 0 = inside the spec range, 1 = the full Go domain, 2 = boundaries.
func (g *Gen) genField(d fieldDomain, mode int) int64 {
	r := g.r
	switch d.kind {
	case "bool":
		return int64(r.Intn(2))
	case "freq":
		switch mode {
		case 0:
			if r.Chance(1, 8) {
				return int64(r.Pick(0, 100, 868100000, 1677721500, 433175000, 923200000, 1677721400))
			}
			return int64(r.Intn(16777216)) * 100
		case 1:
			switch r.Intn(4) {
			case 0:
				return int64(r.U32())
			case 1:
				return int64(uint32(r.Intn(16777216))*100 + uint32(r.Intn(100)))
			case 2:
				return int64(2400000000 + uint32(r.Intn(9554432))*200 + uint32(r.Pick(0, 0, 0, 100, 50, 199)))
			default:
				return int64(r.Intn(16777216)) * 100
			}
		default:
			return int64(r.Pick(0, 99, 100, 101, 1677721500, 1677721600, 1677721599, 1199999900, 1200000000, 1200000100, 2399999900, 2400000000, 2400000100, 2400000200,
				3355443000, 3355443100, 3355443200, 4294967295, 4294967200))
		}
	case "dur":
		switch mode {
		case 0:
			switch r.Intn(3) {
			case 0:
				return int64(r.U32())*1000000000 + int64(r.Intn(256))*3906250
			case 1:
				return int64(r.U32())*1000000000 + int64(r.Intn(1000000000))
			default:
				return int64(r.Intn(100000)) * int64(time.Millisecond)
			}
		case 1:
			return int64(r.U64())
		default:
			xs := []int64{0, 1, -1, 3906249, 3906250, 3906251, 999999999, 1000000000, 4294967295 * 1000000000, 4294967296 * 1000000000, 4294967296*1000000000 - 1,
				1<<63 - 1, -1 << 63, -1000000000, -3906250, 4294967295*1000000000 + 999999999}
			return xs[r.Intn(len(xs))]
		}
	}
	switch mode {
	case 0:
		return d.slo + int64(r.U64()%uint64(d.shi-d.slo+1))
	case 1:
		return d.lo + int64(r.U64()%uint64(d.hi-d.lo+1))
	default:
		xs := []int64{d.lo, d.hi, d.slo, d.shi, d.shi + 1, d.slo - 1}
		v := xs[r.Intn(len(xs))]
		if v < d.lo {
			v = d.lo
		}
		if v > d.hi {
			v = d.hi
		}
		return v
	}
}

// fieldEdges lists the boundary values of a field: ends of the Go type, ends of the specification range and their neighbours.
func fieldEdges(d fieldDomain) []int64 {
	var xs []int64
	switch d.kind {
	case "bool":
		return []int64{0, 1}
	case "freq":
		xs = []int64{0, 99, 100, 101, 200, 1199999800, 1199999900, 1200000000, 1200000100, 1677721400, 1677721500, 1677721501, 1677721599, 1677721600, 1677721700,
			2399999800, 2399999900, 2400000000, 2400000100, 2400000200, 2400000400, 3355443000, 3355443100, 3355443200, 4294967200, 4294967295}
	case "dur":
		xs = []int64{0, 1, -1, 3906249, 3906250, 3906251, 999999999, 1000000000, 4294967295 * 1000000000, 4294967296 * 1000000000, 4294967296*1000000000 - 1,
			1<<63 - 1, -1 << 63, -1000000000, -3906250, 4294967295*1000000000 + 999999999}
	default:
		xs = []int64{d.lo, d.lo + 1, d.hi, d.hi - 1, d.slo, d.slo - 1, d.slo + 1, d.shi, d.shi + 1, d.shi - 1}
	}
	var out []int64
	seen := map[int64]bool{}
	for _, v := range xs {
		if v < d.lo || v > d.hi || seen[v] {
			continue
		}
		seen[v] = true
		out = append(out, v)
	}
	return out
}

// genPayloadTok returns the canonical token of a random payload of the given type.
func (g *Gen) genPayloadTok(name string, mode int) string {
	if name == "ProprietaryMACCommandPayload" {
		return name + "(" + hx(g.r.Bytes(g.r.Intn(6))) + ")"
	}
	ds := payloadDomains[name]
	parts := make([]string, len(ds))
	for i, d := range ds {
		v := g.genField(d, mode)
		if name == "ForceRejoinReqPayload" && i == 2 && mode == 0 {
			v = int64(g.r.Pick(0, 2))
		}
		if name == "DutyCycleReqPayload" && mode == 0 && g.r.Chance(1, 10) {
			v = 255
		}
		parts[i] = strconv.FormatInt(v, 10)
	}
	return name + "(" + strings.Join(parts, ",") + ")"
}

// registry view used by generators: (uplink, cid) -> payload type name, size
type regEntry struct {
	up   bool
	cid  int
	name string
	size int
}

func builtinRegistry() []regEntry {
	var out []regEntry
	for _, up := range []bool{false, true} {
		for cid := 0; cid < 256; cid++ {
			p, n, err := lw.GetMACPayloadAndSize(up, lw.CID(cid))
			if err != nil {
				continue
			}
			name, _, _, _ := payloadFields(p)
			out = append(out, regEntry{up, cid, name, n})
		}
	}
	return out
}

// CIDs of the specification that carry no payload in a direction.
var emptyCIDs = map[bool][]int{
	true:  {0x02, 0x04, 0x08, 0x09, 0x0C, 0x0D}, // LinkCheckReq, DutyCycleAns, RXTimingSetupAns, TXParamSetupAns, ADRParamSetupAns, DeviceTimeReq
	false: {0x06, 0x10},                         // DevStatusReq, PingSlotInfoAns
}

// genCmdTok returns a random valid MAC command item token for the direction and its encoded length.
func (g *Gen) genCmdTok(reg []regEntry, up bool, mode int) (string, int) {
	if g.r.Chance(1, 5) {
		cs := emptyCIDs[up]
		return fmt.Sprintf("C:%d:-", cs[g.r.Intn(len(cs))]), 1
	}
	var cands []regEntry
	for _, e := range reg {
		if e.up == up {
			cands = append(cands, e)
		}
	}
	e := cands[g.r.Intn(len(cands))]
	if e.name == "ProprietaryMACCommandPayload" {
		return fmt.Sprintf("C:%d:%s(%s)", e.cid, e.name, hx(g.r.Bytes(e.size))), 1 + e.size
	}
	return fmt.Sprintf("C:%d:%s", e.cid, g.genPayloadTok(e.name, mode)), 1 + e.size
}

// genCmds returns command tokens whose total encoded size is at most maxBytes.
func (g *Gen) genCmds(reg []regEntry, up bool, maxBytes int, mode int) []string {
	var out []string
	total := 0
	n := g.r.Intn(6)
	if g.r.Chance(1, 6) {
		n = 60
	}
	for i := 0; i < n; i++ {
		t, sz := g.genCmdTok(reg, up, mode)
		if total+sz > maxBytes {
			break
		}
		total += sz
		out = append(out, t)
	}
	return out
}

func itemsTok(items []string) string {
	if len(items) == 0 {
		return "0"
	}
	return strconv.Itoa(len(items)) + " " + strings.Join(items, " ")
}

func (g *Gen) key() string { return hx(g.r.Bytes(16)) }

func (g *Gen) payloadLen() int {
	if g.r.Chance(1, 2) {
		return g.r.Pick(0, 1, 15, 16, 17, 31, 32, 33, 47, 48, 49, 222, 242, 255, 250, 64, 128)
	}
	return g.r.Intn(256)
}

// frameOpts tunes genDataFrame.
type frameOpts struct {
	mtype     int  // -1: any data mtype
	encrypted bool // FOpts / FRMPayload as opaque bytes instead of commands
	valid     bool // stay inside the specification
}

// genDataFrame returns the canonical tokens of a data frame (MAC payload).
func (g *Gen) genDataFrame(reg []regEntry, o frameOpts) string {
	r := g.r
	mt := o.mtype
	if mt < 0 {
		mt = r.Pick(2, 3, 4, 5)
	}
	up := mt == 2 || mt == 4
	// the Major field enters the MICs and the MHDR layout: mostly LoRaWAN R1 (0), the other three values regularly
	major := r.Pick(0, 0, 0, 0, 0, 1, 2, 3)
	fc := make([]byte, 5)
	for i := range fc {
		fc[i] = '0'
		if r.Bool() {
			fc[i] = '1'
		}
	}
	// FPending and ClassB map to one bit; keep them equal so that a decoded frame compares equal
	if o.valid || r.Chance(3, 4) {
		if up {
			fc[3] = fc[4]
		} else {
			fc[4] = fc[3]
		}
	}
	var fopts []string
	foptsBytes := 0
	switch r.Intn(3) {
	case 0:
	case 1:
		fopts = g.genCmds(reg, up, 15, 0)
		if o.encrypted && len(fopts) > 0 {
			n := 1 + r.Intn(15)
			fopts = []string{"D:" + hx(r.Bytes(n))}
		}
	default:
		n := r.Intn(16)
		if !o.valid && r.Chance(1, 10) {
			n = 16 + r.Intn(3)
		}
		if n > 0 {
			fopts = []string{"D:" + hx(r.Bytes(n))}
		}
		foptsBytes = n
	}
	_ = foptsBytes
	fport := "-"
	var frm []string
	switch r.Intn(5) {
	case 0: // no port
	case 1: // port 0 with commands
		if len(fopts) == 0 || (!o.valid && r.Chance(1, 4)) {
			fport = "0"
			if o.encrypted {
				if n := g.payloadLen(); n > 0 {
					frm = []string{"D:" + hx(r.Bytes(n))}
				}
			} else {
				frm = g.genCmds(reg, up, 242, 0)
			}
		} else {
			fport = strconv.Itoa(1 + r.Intn(255))
		}
	default:
		fport = strconv.Itoa(r.Pick(1, 1+r.Intn(255), 255, 224))
		n := g.payloadLen()
		if o.valid && n > 242 {
			n = 242
		}
		if n > 0 {
			frm = []string{"D:" + hx(r.Bytes(n))}
			if r.Chance(1, 8) && n > 2 {
				k := 1 + r.Intn(n-1)
				b := r.Bytes(n)
				frm = []string{"D:" + hx(b[:k]), "D:" + hx(b[k:])}
			}
		}
	}
	if !o.valid && r.Chance(1, 20) && fport == "-" {
		frm = []string{"D:" + hx(r.Bytes(1+r.Intn(4)))}
	}
	if !o.valid {
		// elements that cannot be serialised (fields outside their wire width), commands outside port 0,
		// several opaque elements: the error paths of the marshal / encrypt / decode-to-commands methods
		switch r.Intn(12) {
		case 0:
			fopts = g.genCmds(reg, up, 15, 1+r.Intn(2))
		case 1:
			if fport != "-" {
				frm = g.genCmds(reg, up, 60, r.Intn(3))
			}
		case 2:
			fopts = []string{"D:" + hx(r.Bytes(1+r.Intn(5))), "D:" + hx(r.Bytes(1+r.Intn(5)))}
		case 3:
			if fport == "0" {
				frm = []string{"D:" + hx(r.Bytes(1+r.Intn(5))), "D:" + hx(r.Bytes(1+r.Intn(5)))}
			}
		}
	}
	return fmt.Sprintf("%d %d %s MAC %d %s %d %s %s %s", mt, major, hx(r.Bytes(4)), r.U32Edge(), string(fc), r.U32Edge(), itemsTok(fopts), fport, itemsTok(frm))
}

func (g *Gen) u64dec() string { return strconv.FormatUint(g.r.U64(), 10) }

func (g *Gen) genCFList(valid bool) string {
	r := g.r
	switch r.Intn(3) {
	case 0:
		return "-"
	case 1:
		parts := make([]string, 5)
		for i := range parts {
			f := uint32(r.Intn(16777216)) * 100
			if r.Chance(1, 4) {
				f = 0
			}
			if r.Chance(1, 12) { // the ends of the 24-bit x 100 Hz field
				f = uint32(r.Pick(100, 1677721500, 1677721400))
			}
			if !valid && r.Chance(1, 10) {
				f = r.U32()
				if r.Chance(1, 2) {
					f = uint32(r.Pick(1677721600, 1677721700, 3355443100, 3355443200, 1677721501, 99))
				}
			}
			parts[i] = strconv.FormatUint(uint64(f), 10)
		}
		t := 0
		if !valid && r.Chance(1, 6) {
			t = r.Intn(256)
		}
		return fmt.Sprintf("CH:%d:%s", t, strings.Join(parts, ","))
	default:
		n := r.Intn(7)
		if !valid && r.Chance(1, 8) {
			n = 7 + r.Intn(2)
		}
		parts := make([]string, n)
		for i := range parts {
			m := int(r.U16())
			if r.Chance(1, 4) {
				m = 0
			}
			parts[i] = strconv.Itoa(m)
		}
		t := 1
		if !valid && r.Chance(1, 6) {
			t = r.Intn(256)
		}
		return fmt.Sprintf("CM:%d:%s", t, strings.Join(parts, ","))
	}
}

// genJoinFrame returns join-request / join-accept / rejoin / proprietary frames.
func (g *Gen) genJoinFrame(kind string, valid bool) string {
	r := g.r
	mic := hx(r.Bytes(4))
	// the Major field (MHDR bits 1..0) enters every MIC: all four values, mostly LoRaWAN R1
	major := r.Pick(0, 0, 0, 1, 2, 3)
	switch kind {
	case "JR":
		return fmt.Sprintf("0 %d %s JR %s %s %d", major, mic, g.u64dec(), g.u64dec(), r.U16())
	case "JA":
		jn := uint32(r.Intn(1 << 24))
		if r.Chance(1, 10) {
			jn = uint32(r.Pick(0, 1, 1<<24-1, 1<<24-2))
		}
		rxd := r.Intn(16)
		rx2 := r.Intn(16)
		rx1 := r.Intn(8)
		if !valid && r.Chance(1, 5) {
			switch r.Intn(4) {
			case 0:
				jn = r.U32()
				if r.Chance(1, 2) { // the first values outside the 24-bit field
					jn = uint32(r.Pick(1<<24, 1<<24+1, 1<<25-1, 1<<25))
				}
			case 1:
				rxd = r.Intn(256)
			case 2:
				rx2 = r.Intn(256)
			default:
				rx1 = r.Intn(256)
			}
		}
		return fmt.Sprintf("1 %d %s JA %d %d %d %d %d %d %d %s", major, mic, jn, r.Intn(1<<24), r.U32(), r.Intn(2), rx2, rx1, rxd, g.genCFList(valid))
	case "RJ02":
		t := r.Pick(0, 2)
		if !valid && r.Chance(1, 5) {
			t = r.Intn(256)
		}
		return fmt.Sprintf("6 %d %s RJ02 %d %d %s %d", major, mic, t, r.Intn(1<<24), g.u64dec(), r.U16())
	case "RJ1":
		t := 1
		if !valid && r.Chance(1, 5) {
			t = r.Intn(256)
		}
		return fmt.Sprintf("6 %d %s RJ1 %d %s %s %d", major, mic, t, g.u64dec(), g.u64dec(), r.U16())
	default: // proprietary
		return fmt.Sprintf("7 %d %s DATA %s", major, mic, hx(r.Bytes(g.payloadLen())))
	}
}

func (g *Gen) genAnyFrame(reg []regEntry, valid bool) string {
	switch g.r.Intn(10) {
	case 0:
		return g.genJoinFrame("JR", valid)
	case 1:
		return g.genJoinFrame("JA", valid)
	case 2:
		return g.genJoinFrame("RJ02", valid)
	case 3:
		return g.genJoinFrame("RJ1", valid)
	case 4:
		return g.genJoinFrame("PROP", valid)
	default:
		return g.genDataFrame(reg, frameOpts{mtype: -1, valid: valid})
	}
}

// mutateBytes returns a structure-aware mutation of a valid encoding.
func (g *Gen) mutateBytes(b []byte) []byte {
	r := g.r
	out := append([]byte{}, b...)
	switch r.Intn(6) {
	case 0: // bit flip
		if len(out) > 0 {
			out[r.Intn(len(out))] ^= 1 << uint(r.Intn(8))
		}
	case 1: // truncate
		if len(out) > 0 {
			out = out[:r.Intn(len(out))]
		}
	case 2: // extend
		out = append(out, r.Bytes(1+r.Intn(20))...)
	case 3: // splice
		if len(out) > 1 {
			i := r.Intn(len(out))
			out = append(out[:i], append(r.Bytes(1+r.Intn(4)), out[i:]...)...)
		}
	case 4: // overwrite a byte
		if len(out) > 0 {
			out[r.Intn(len(out))] = r.Byte()
		}
	default: // delete a byte
		if len(out) > 1 {
			i := r.Intn(len(out))
			out = append(out[:i], out[i+1:]...)
		}
	}
	return out
}

// encodeFrameTok runs the real encoder on a frame token string (nil if it refuses).
func encodeFrameTok(frame string) []byte {
	res := execOp("phyenc " + frame)
	if !strings.HasPrefix(res, "ok x") {
		return nil
	}
	b, _ := unhx(res[3:])
	return b
}
