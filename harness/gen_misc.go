package main

import (
	"math"
	"time"
)

func init() {
	generators["C19"] = genC19
	generators["C20"] = genC20
}

func genC19(g *Gen) {
	n := g.scale(500, 8000)
	for i := 0; i < n; i++ {
		size := 1 + g.r.Intn(64)
		cnt := 1 + g.r.Intn(40)
		switch i % 5 {
		case 0:
			cnt = []int{1, 2, 4, 8, 16, 32, 64, 128, 256}[g.r.Intn(9)] // power-of-two branch
		case 1:
			cnt = 1 + g.r.Intn(300)
			size = 1 + g.r.Intn(8)
		}
		red := g.r.Intn(20)
		if i%7 == 0 {
			red = g.r.Intn(101)
			if cnt > 60 {
				red = g.r.Intn(12)
			}
		}
		g.addf("fragenc %d %d %s", size, red, hx(g.r.Bytes(size*cnt)))
	}
	// linearity probes: zero data, single-bit data
	for i := 0; i < g.scale(60, 600); i++ {
		size := 1 + g.r.Intn(8)
		cnt := 1 + g.r.Intn(30)
		d := make([]byte, size*cnt)
		g.addf("fragenc %d %d %s", size, 10, hx(d))
		d[g.r.Intn(len(d))] = 1 << uint(g.r.Intn(8))
		g.addf("fragenc %d %d %s", size, 10, hx(d))
	}
	// large redundancy: from parity index 8380 on the PRBS23 seed 1 + 1001 N no longer fits 23 bits (TS004 allows a 14-bit index);
	// one non-power-of-two and one power-of-two fragment count
	g.addf("fragenc 1 8500 %s", hx(g.r.Bytes(12)))
	g.addf("fragenc 1 8500 %s", hx(g.r.Bytes(8)))
	// invalid sizes
	for _, size := range []int{0, -1, -5, -1 << 31, 3, 7, 1000} {
		for _, red := range []int{0, 1, 5, -1} {
			for _, l := range []int{0, 10, 15} {
				g.addf("fragenc %d %d %s", size, red, hx(g.r.Bytes(l)))
			}
		}
	}
}

func genC20(g *Gen) {
	// GPS: dense around every leap second, plus random instants 1980..2100
	_, times := leapTimes()
	offs := []int64{-2000000000, -1500000000, -1000000001, -1000000000, -999999999, -500000000, -1, 0, 1, 500000000, 999999999, 1000000000, 1000000001, 1500000000, 2000000000, 3000000000}
	for _, t := range times {
		for _, o := range offs {
			ns := t + o
			g.addf("gpsto %d", ns)
			res := execOp("gpsto " + itoa(ns))
			if len(res) > 3 {
				g.add("gpsfrom " + res[3:])
			}
			// the duration grid around the leap (including durations inside the inserted second)
			g.addf("gpsfrom %d", ns-315964800000000000+int64(g.r.Intn(20))*1000000000)
		}
	}
	lo := time.Date(1980, 1, 6, 0, 0, 0, 0, time.UTC).UnixNano()
	hi := time.Date(2100, 1, 1, 0, 0, 0, 0, time.UTC).UnixNano()
	for i := 0; i < g.scale(2000, 100000); i++ {
		ns := lo + int64(g.r.U64()%uint64(hi-lo))
		g.addf("gpsto %d", ns)
		g.addf("gpsfrom %d", ns-lo)
	}
	g.addf("gpsto %d", lo)
	g.addf("gpsto %d", lo-1000000000)
	g.addf("gpsfrom 0")
	// airtime
	sfs := []int{5, 6, 7, 8, 9, 10, 11, 12}
	bws := []int{125, 250, 500, 812, 1625}
	if g.thorough() {
		for _, sf := range sfs {
			for _, bw := range bws {
				for pl := 0; pl <= 255; pl++ {
					for cr := 1; cr <= 4; cr++ {
						for h := 0; h < 2; h++ {
							for de := 0; de < 2; de++ {
								for _, pre := range []int{0, 8, 12, 64} {
									g.addf("airtime %d %d %d %d %d %d %d", pl, sf, bw, pre, cr, h, de)
								}
							}
						}
					}
				}
			}
		}
	} else {
		// factorised: payload-symbol count exhaustively (it does not depend on bandwidth / preamble) ...
		for _, sf := range sfs {
			for pl := 0; pl <= 255; pl++ {
				for cr := 1; cr <= 4; cr++ {
					for h := 0; h < 2; h++ {
						for de := 0; de < 2; de++ {
							g.addf("paysym %d %d %d %d %d", pl, sf, cr, h, de)
						}
					}
				}
			}
		}
		// ... and the full airtime over bandwidth x preamble on a sample of the rest
		for _, sf := range sfs {
			for _, bw := range bws {
				for pre := 0; pre <= 64; pre++ {
					g.addf("airtime %d %d %d %d %d %d %d", g.r.Intn(256), sf, bw, pre, 1+g.r.Intn(4), g.r.Intn(2), g.r.Intn(2))
				}
			}
		}
	}
	for _, cr := range []int{0, 5, -1} {
		g.addf("airtime 10 7 125 8 %d 1 0", cr)
	}
	// EIRP: all index bytes, table neighbourhoods, random finite float32 >= 8, special values
	for i := 0; i < 256; i++ {
		g.addf("eirpval %d", i)
	}
	for _, v := range []float32{8, 10, 12, 13, 14, 16, 18, 20, 21, 24, 26, 27, 29, 30, 33, 36} {
		b := math.Float32bits(v)
		for d := -3; d <= 3; d++ {
			g.addf("eirpidx %d", uint32(int64(b)+int64(d)))
		}
	}
	for i := 0; i < g.scale(3000, 200000); i++ {
		switch i % 4 {
		case 0:
			g.addf("eirpidx %d", math.Float32bits(8+float32(g.r.Intn(3000))/100))
		case 1:
			g.addf("eirpidx %d", g.r.U32())
		case 2:
			g.addf("eirpidx %d", math.Float32bits(float32(g.r.Intn(50))-5))
		default:
			g.addf("eirpidx %d", 0x41000000+g.r.U32()%0x01400000) // 8.0 .. ~40
		}
	}
	for _, b := range []uint32{0, 0x80000000, 0x7f800000, 0xff800000, 0x7fc00000, 0x7f7fffff, 0x00000001} {
		g.addf("eirpidx %d", b)
	}
}
