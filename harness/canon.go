package main

// Canonical text form of lorawan values, shared with the Lean driver (lean/LW/Driver/Canon.lean).
// Everything is printed by explicit printers in a fixed field order; nothing comes out of a map unsorted.

import (
	"bytes"
	"encoding/hex"
	"fmt"
	"strconv"
	"strings"
	"time"

	lw "github.com/brocaar/lorawan"
)

func hx(b []byte) string { return "x" + hex.EncodeToString(b) }

func unhx(s string) ([]byte, error) {
	if !strings.HasPrefix(s, "x") {
		return nil, fmt.Errorf("hex token must start with x: %q", s)
	}
	return hex.DecodeString(s[1:])
}

func b2i(b bool) int64 {
	if b {
		return 1
	}
	return 0
}

func chMaskToU16(m lw.ChMask) int64 {
	var n int64
	for i := 0; i < 16; i++ {
		if m[i] {
			n |= 1 << uint(i)
		}
	}
	return n
}

func u16ToChMask(n int64) lw.ChMask {
	var m lw.ChMask
	for i := 0; i < 16; i++ {
		m[i] = n&(1<<uint(i)) != 0
	}
	return m
}

// payloadFields returns the Go type name and the canonical field list of a MAC command payload.
func payloadFields(p lw.MACCommandPayload) (string, []int64, []byte, bool) {
	switch v := p.(type) {
	case *lw.ResetIndPayload:
		return "ResetIndPayload", []int64{int64(v.DevLoRaWANVersion.Minor)}, nil, true
	case *lw.ResetConfPayload:
		return "ResetConfPayload", []int64{int64(v.ServLoRaWANVersion.Minor)}, nil, true
	case *lw.LinkCheckAnsPayload:
		return "LinkCheckAnsPayload", []int64{int64(v.Margin), int64(v.GwCnt)}, nil, true
	case *lw.LinkADRReqPayload:
		return "LinkADRReqPayload", []int64{int64(v.DataRate), int64(v.TXPower), chMaskToU16(v.ChMask), int64(v.Redundancy.ChMaskCntl), int64(v.Redundancy.NbRep)}, nil, true
	case *lw.LinkADRAnsPayload:
		return "LinkADRAnsPayload", []int64{b2i(v.ChannelMaskACK), b2i(v.DataRateACK), b2i(v.PowerACK)}, nil, true
	case *lw.DutyCycleReqPayload:
		return "DutyCycleReqPayload", []int64{int64(v.MaxDCycle)}, nil, true
	case *lw.RXParamSetupReqPayload:
		return "RXParamSetupReqPayload", []int64{int64(v.Frequency), b2i(v.DLSettings.OptNeg), int64(v.DLSettings.RX2DataRate), int64(v.DLSettings.RX1DROffset)}, nil, true
	case *lw.RXParamSetupAnsPayload:
		return "RXParamSetupAnsPayload", []int64{b2i(v.ChannelACK), b2i(v.RX2DataRateACK), b2i(v.RX1DROffsetACK)}, nil, true
	case *lw.DevStatusAnsPayload:
		return "DevStatusAnsPayload", []int64{int64(v.Battery), int64(v.Margin)}, nil, true
	case *lw.NewChannelReqPayload:
		return "NewChannelReqPayload", []int64{int64(v.ChIndex), int64(v.Freq), int64(v.MaxDR), int64(v.MinDR)}, nil, true
	case *lw.NewChannelAnsPayload:
		return "NewChannelAnsPayload", []int64{b2i(v.ChannelFrequencyOK), b2i(v.DataRateRangeOK)}, nil, true
	case *lw.RXTimingSetupReqPayload:
		return "RXTimingSetupReqPayload", []int64{int64(v.Delay)}, nil, true
	case *lw.TXParamSetupReqPayload:
		return "TXParamSetupReqPayload", []int64{int64(v.DownlinkDwelltime), int64(v.UplinkDwellTime), int64(v.MaxEIRP)}, nil, true
	case *lw.DLChannelReqPayload:
		return "DLChannelReqPayload", []int64{int64(v.ChIndex), int64(v.Freq)}, nil, true
	case *lw.DLChannelAnsPayload:
		return "DLChannelAnsPayload", []int64{b2i(v.UplinkFrequencyExists), b2i(v.ChannelFrequencyOK)}, nil, true
	case *lw.PingSlotInfoReqPayload:
		return "PingSlotInfoReqPayload", []int64{int64(v.Periodicity)}, nil, true
	case *lw.BeaconFreqReqPayload:
		return "BeaconFreqReqPayload", []int64{int64(v.Frequency)}, nil, true
	case *lw.BeaconFreqAnsPayload:
		return "BeaconFreqAnsPayload", []int64{b2i(v.BeaconFrequencyOK)}, nil, true
	case *lw.PingSlotChannelReqPayload:
		return "PingSlotChannelReqPayload", []int64{int64(v.Frequency), int64(v.DR)}, nil, true
	case *lw.PingSlotChannelAnsPayload:
		return "PingSlotChannelAnsPayload", []int64{b2i(v.DataRateOK), b2i(v.ChannelFrequencyOK)}, nil, true
	case *lw.DeviceTimeAnsPayload:
		return "DeviceTimeAnsPayload", []int64{int64(v.TimeSinceGPSEpoch)}, nil, true
	case *lw.RekeyIndPayload:
		return "RekeyIndPayload", []int64{int64(v.DevLoRaWANVersion.Minor)}, nil, true
	case *lw.RekeyConfPayload:
		return "RekeyConfPayload", []int64{int64(v.ServLoRaWANVersion.Minor)}, nil, true
	case *lw.ADRParamSetupReqPayload:
		return "ADRParamSetupReqPayload", []int64{int64(v.ADRParam.LimitExp), int64(v.ADRParam.DelayExp)}, nil, true
	case *lw.ForceRejoinReqPayload:
		return "ForceRejoinReqPayload", []int64{int64(v.Period), int64(v.MaxRetries), int64(v.RejoinType), int64(v.DR)}, nil, true
	case *lw.RejoinParamSetupReqPayload:
		return "RejoinParamSetupReqPayload", []int64{int64(v.MaxTimeN), int64(v.MaxCountN)}, nil, true
	case *lw.RejoinParamSetupAnsPayload:
		return "RejoinParamSetupAnsPayload", []int64{b2i(v.TimeOK)}, nil, true
	case *lw.DeviceModeIndPayload:
		return "DeviceModeIndPayload", []int64{int64(v.Class)}, nil, true
	case *lw.DeviceModeConfPayload:
		return "DeviceModeConfPayload", []int64{int64(v.Class)}, nil, true
	case *lw.ProprietaryMACCommandPayload:
		return "ProprietaryMACCommandPayload", nil, v.Bytes, true
	}
	return fmt.Sprintf("?%T", p), nil, nil, false
}

func fmtPayload(p lw.MACCommandPayload) string {
	name, fs, bs, ok := payloadFields(p)
	if !ok {
		return name
	}
	if name == "ProprietaryMACCommandPayload" {
		return name + "(" + hx(bs) + ")"
	}
	parts := make([]string, len(fs))
	for i, f := range fs {
		parts[i] = strconv.FormatInt(f, 10)
	}
	return name + "(" + strings.Join(parts, ",") + ")"
}

// payloadNames lists the 30 payload type names in the order of the Lean `Kind` type.
var payloadNames = []string{
	"ResetIndPayload", "ResetConfPayload", "LinkCheckAnsPayload", "LinkADRReqPayload", "LinkADRAnsPayload", "DutyCycleReqPayload",
	"RXParamSetupReqPayload", "RXParamSetupAnsPayload", "DevStatusAnsPayload", "NewChannelReqPayload", "NewChannelAnsPayload",
	"RXTimingSetupReqPayload", "TXParamSetupReqPayload", "DLChannelReqPayload", "DLChannelAnsPayload", "PingSlotInfoReqPayload",
	"BeaconFreqReqPayload", "BeaconFreqAnsPayload", "PingSlotChannelReqPayload", "PingSlotChannelAnsPayload", "DeviceTimeAnsPayload",
	"RekeyIndPayload", "RekeyConfPayload", "ADRParamSetupReqPayload", "ForceRejoinReqPayload", "RejoinParamSetupReqPayload",
	"RejoinParamSetupAnsPayload", "DeviceModeIndPayload", "DeviceModeConfPayload", "ProprietaryMACCommandPayload",
}

// payloadArity is the number of integer fields of each payload type.
var payloadArity = map[string]int{
	"ResetIndPayload": 1, "ResetConfPayload": 1, "LinkCheckAnsPayload": 2, "LinkADRReqPayload": 5, "LinkADRAnsPayload": 3, "DutyCycleReqPayload": 1,
	"RXParamSetupReqPayload": 4, "RXParamSetupAnsPayload": 3, "DevStatusAnsPayload": 2, "NewChannelReqPayload": 4, "NewChannelAnsPayload": 2,
	"RXTimingSetupReqPayload": 1, "TXParamSetupReqPayload": 3, "DLChannelReqPayload": 2, "DLChannelAnsPayload": 2, "PingSlotInfoReqPayload": 1,
	"BeaconFreqReqPayload": 1, "BeaconFreqAnsPayload": 1, "PingSlotChannelReqPayload": 2, "PingSlotChannelAnsPayload": 2, "DeviceTimeAnsPayload": 1,
	"RekeyIndPayload": 1, "RekeyConfPayload": 1, "ADRParamSetupReqPayload": 2, "ForceRejoinReqPayload": 4, "RejoinParamSetupReqPayload": 2,
	"RejoinParamSetupAnsPayload": 1, "DeviceModeIndPayload": 1, "DeviceModeConfPayload": 1,
}

func mkPayload(name string, f []int64, bs []byte) (lw.MACCommandPayload, error) {
	if name != "ProprietaryMACCommandPayload" {
		if n, ok := payloadArity[name]; !ok || n != len(f) {
			return nil, fmt.Errorf("bad payload %s/%d", name, len(f))
		}
	}
	bo := func(i int) bool { return f[i] != 0 }
	switch name {
	case "ResetIndPayload":
		return &lw.ResetIndPayload{DevLoRaWANVersion: lw.Version{Minor: uint8(f[0])}}, nil
	case "ResetConfPayload":
		return &lw.ResetConfPayload{ServLoRaWANVersion: lw.Version{Minor: uint8(f[0])}}, nil
	case "LinkCheckAnsPayload":
		return &lw.LinkCheckAnsPayload{Margin: uint8(f[0]), GwCnt: uint8(f[1])}, nil
	case "LinkADRReqPayload":
		return &lw.LinkADRReqPayload{DataRate: uint8(f[0]), TXPower: uint8(f[1]), ChMask: u16ToChMask(f[2]), Redundancy: lw.Redundancy{ChMaskCntl: uint8(f[3]), NbRep: uint8(f[4])}}, nil
	case "LinkADRAnsPayload":
		return &lw.LinkADRAnsPayload{ChannelMaskACK: bo(0), DataRateACK: bo(1), PowerACK: bo(2)}, nil
	case "DutyCycleReqPayload":
		return &lw.DutyCycleReqPayload{MaxDCycle: uint8(f[0])}, nil
	case "RXParamSetupReqPayload":
		return &lw.RXParamSetupReqPayload{Frequency: uint32(f[0]), DLSettings: lw.DLSettings{OptNeg: bo(1), RX2DataRate: uint8(f[2]), RX1DROffset: uint8(f[3])}}, nil
	case "RXParamSetupAnsPayload":
		return &lw.RXParamSetupAnsPayload{ChannelACK: bo(0), RX2DataRateACK: bo(1), RX1DROffsetACK: bo(2)}, nil
	case "DevStatusAnsPayload":
		return &lw.DevStatusAnsPayload{Battery: uint8(f[0]), Margin: int8(f[1])}, nil
	case "NewChannelReqPayload":
		return &lw.NewChannelReqPayload{ChIndex: uint8(f[0]), Freq: uint32(f[1]), MaxDR: uint8(f[2]), MinDR: uint8(f[3])}, nil
	case "NewChannelAnsPayload":
		return &lw.NewChannelAnsPayload{ChannelFrequencyOK: bo(0), DataRateRangeOK: bo(1)}, nil
	case "RXTimingSetupReqPayload":
		return &lw.RXTimingSetupReqPayload{Delay: uint8(f[0])}, nil
	case "TXParamSetupReqPayload":
		return &lw.TXParamSetupReqPayload{DownlinkDwelltime: lw.DwellTime(f[0]), UplinkDwellTime: lw.DwellTime(f[1]), MaxEIRP: uint8(f[2])}, nil
	case "DLChannelReqPayload":
		return &lw.DLChannelReqPayload{ChIndex: uint8(f[0]), Freq: uint32(f[1])}, nil
	case "DLChannelAnsPayload":
		return &lw.DLChannelAnsPayload{UplinkFrequencyExists: bo(0), ChannelFrequencyOK: bo(1)}, nil
	case "PingSlotInfoReqPayload":
		return &lw.PingSlotInfoReqPayload{Periodicity: uint8(f[0])}, nil
	case "BeaconFreqReqPayload":
		return &lw.BeaconFreqReqPayload{Frequency: uint32(f[0])}, nil
	case "BeaconFreqAnsPayload":
		return &lw.BeaconFreqAnsPayload{BeaconFrequencyOK: bo(0)}, nil
	case "PingSlotChannelReqPayload":
		return &lw.PingSlotChannelReqPayload{Frequency: uint32(f[0]), DR: uint8(f[1])}, nil
	case "PingSlotChannelAnsPayload":
		return &lw.PingSlotChannelAnsPayload{DataRateOK: bo(0), ChannelFrequencyOK: bo(1)}, nil
	case "DeviceTimeAnsPayload":
		return &lw.DeviceTimeAnsPayload{TimeSinceGPSEpoch: time.Duration(f[0])}, nil
	case "RekeyIndPayload":
		return &lw.RekeyIndPayload{DevLoRaWANVersion: lw.Version{Minor: uint8(f[0])}}, nil
	case "RekeyConfPayload":
		return &lw.RekeyConfPayload{ServLoRaWANVersion: lw.Version{Minor: uint8(f[0])}}, nil
	case "ADRParamSetupReqPayload":
		return &lw.ADRParamSetupReqPayload{ADRParam: lw.ADRParam{LimitExp: uint8(f[0]), DelayExp: uint8(f[1])}}, nil
	case "ForceRejoinReqPayload":
		return &lw.ForceRejoinReqPayload{Period: uint8(f[0]), MaxRetries: uint8(f[1]), RejoinType: uint8(f[2]), DR: uint8(f[3])}, nil
	case "RejoinParamSetupReqPayload":
		return &lw.RejoinParamSetupReqPayload{MaxTimeN: uint8(f[0]), MaxCountN: uint8(f[1])}, nil
	case "RejoinParamSetupAnsPayload":
		return &lw.RejoinParamSetupAnsPayload{TimeOK: bo(0)}, nil
	case "DeviceModeIndPayload":
		return &lw.DeviceModeIndPayload{Class: lw.DeviceModeClass(f[0])}, nil
	case "DeviceModeConfPayload":
		return &lw.DeviceModeConfPayload{Class: lw.DeviceModeClass(f[0])}, nil
	case "ProprietaryMACCommandPayload":
		return &lw.ProprietaryMACCommandPayload{Bytes: bs}, nil
	}
	return nil, fmt.Errorf("unknown payload %q", name)
}

func parsePayload(s string) (lw.MACCommandPayload, error) {
	i := strings.IndexByte(s, '(')
	if i < 0 || !strings.HasSuffix(s, ")") {
		return nil, fmt.Errorf("bad payload token %q", s)
	}
	name, body := s[:i], s[i+1:len(s)-1]
	if name == "ProprietaryMACCommandPayload" {
		b, err := unhx(body)
		if err != nil {
			return nil, err
		}
		return mkPayload(name, nil, b)
	}
	var fs []int64
	if body != "" {
		for _, t := range strings.Split(body, ",") {
			v, err := strconv.ParseInt(t, 10, 64)
			if err != nil {
				return nil, err
			}
			fs = append(fs, v)
		}
	}
	return mkPayload(name, fs, nil)
}

// items (FOpts / FRMPayload elements)

func fmtItem(p lw.Payload) string {
	switch v := p.(type) {
	case *lw.DataPayload:
		return "D:" + hx(v.Bytes)
	case *lw.MACCommand:
		if v.Payload == nil {
			return fmt.Sprintf("C:%d:-", byte(v.CID))
		}
		return fmt.Sprintf("C:%d:%s", byte(v.CID), fmtPayload(v.Payload))
	}
	return fmt.Sprintf("?%T", p)
}

func parseItem(s string) (lw.Payload, error) {
	if strings.HasPrefix(s, "D:") {
		b, err := unhx(s[2:])
		if err != nil {
			return nil, err
		}
		return &lw.DataPayload{Bytes: b}, nil
	}
	if strings.HasPrefix(s, "C:") {
		rest := s[2:]
		i := strings.IndexByte(rest, ':')
		if i < 0 {
			return nil, fmt.Errorf("bad item %q", s)
		}
		cid, err := strconv.Atoi(rest[:i])
		if err != nil {
			return nil, err
		}
		mc := &lw.MACCommand{CID: lw.CID(cid)}
		if rest[i+1:] != "-" {
			p, err := parsePayload(rest[i+1:])
			if err != nil {
				return nil, err
			}
			mc.Payload = p
		}
		return mc, nil
	}
	return nil, fmt.Errorf("bad item %q", s)
}

func fmtItems(ps []lw.Payload) []string {
	out := []string{strconv.Itoa(len(ps))}
	for _, p := range ps {
		out = append(out, fmtItem(p))
	}
	return out
}

func be(b []byte) uint64 {
	var n uint64
	for _, x := range b {
		n = n<<8 | uint64(x)
	}
	return n
}

func putBE(dst []byte, n uint64) {
	for i := len(dst) - 1; i >= 0; i-- {
		dst[i] = byte(n)
		n >>= 8
	}
}

func fmtCFList(l *lw.CFList) string {
	if l == nil {
		return "-"
	}
	switch v := l.Payload.(type) {
	case *lw.CFListChannelPayload:
		parts := make([]string, 5)
		for i, f := range v.Channels {
			parts[i] = strconv.FormatUint(uint64(f), 10)
		}
		return fmt.Sprintf("CH:%d:%s", byte(l.CFListType), strings.Join(parts, ","))
	case *lw.CFListChannelMaskPayload:
		parts := make([]string, len(v.ChannelMasks))
		for i, m := range v.ChannelMasks {
			parts[i] = strconv.FormatInt(chMaskToU16(m), 10)
		}
		return fmt.Sprintf("CM:%d:%s", byte(l.CFListType), strings.Join(parts, ","))
	}
	return fmt.Sprintf("?%T", l.Payload)
}

func parseCFList(s string) (*lw.CFList, error) {
	if s == "-" {
		return nil, nil
	}
	parts := strings.SplitN(s, ":", 3)
	if len(parts) != 3 {
		return nil, fmt.Errorf("bad cflist %q", s)
	}
	t, err := strconv.Atoi(parts[1])
	if err != nil {
		return nil, err
	}
	var nums []uint64
	if parts[2] != "" {
		for _, x := range strings.Split(parts[2], ",") {
			v, err := strconv.ParseUint(x, 10, 64)
			if err != nil {
				return nil, err
			}
			nums = append(nums, v)
		}
	}
	l := &lw.CFList{CFListType: lw.CFListType(t)}
	switch parts[0] {
	case "CH":
		if len(nums) != 5 {
			return nil, fmt.Errorf("CH needs 5 channels")
		}
		pl := &lw.CFListChannelPayload{}
		for i := range pl.Channels {
			pl.Channels[i] = uint32(nums[i])
		}
		l.Payload = pl
	case "CM":
		pl := &lw.CFListChannelMaskPayload{}
		for _, n := range nums {
			pl.ChannelMasks = append(pl.ChannelMasks, u16ToChMask(int64(n)))
		}
		l.Payload = pl
	default:
		return nil, fmt.Errorf("bad cflist kind %q", parts[0])
	}
	return l, nil
}

func fctrlBits(c lw.FCtrl) string {
	bs := []bool{c.ADR, c.ADRACKReq, c.ACK, c.FPending, c.ClassB}
	out := make([]byte, 5)
	for i, b := range bs {
		out[i] = '0'
		if b {
			out[i] = '1'
		}
	}
	return string(out)
}

// fmtFrame prints a PHYPayload as space separated tokens.
func fmtFrame(p *lw.PHYPayload) string {
	t := []string{strconv.Itoa(int(p.MHDR.MType)), strconv.Itoa(int(p.MHDR.Major)), hx(p.MIC[:])}
	switch v := p.MACPayload.(type) {
	case nil:
		t = append(t, "NIL")
	case *lw.MACPayload:
		t = append(t, "MAC", strconv.FormatUint(be(v.FHDR.DevAddr[:]), 10), fctrlBits(v.FHDR.FCtrl), strconv.FormatUint(uint64(v.FHDR.FCnt), 10))
		t = append(t, fmtItems(v.FHDR.FOpts)...)
		if v.FPort == nil {
			t = append(t, "-")
		} else {
			t = append(t, strconv.Itoa(int(*v.FPort)))
		}
		t = append(t, fmtItems(v.FRMPayload)...)
	case *lw.JoinRequestPayload:
		t = append(t, "JR", strconv.FormatUint(be(v.JoinEUI[:]), 10), strconv.FormatUint(be(v.DevEUI[:]), 10), strconv.Itoa(int(v.DevNonce)))
	case *lw.JoinAcceptPayload:
		t = append(t, "JA", strconv.FormatUint(uint64(v.JoinNonce), 10), strconv.FormatUint(be(v.HomeNetID[:]), 10), strconv.FormatUint(be(v.DevAddr[:]), 10),
			strconv.FormatInt(b2i(v.DLSettings.OptNeg), 10), strconv.Itoa(int(v.DLSettings.RX2DataRate)), strconv.Itoa(int(v.DLSettings.RX1DROffset)), strconv.Itoa(int(v.RXDelay)), fmtCFList(v.CFList))
	case *lw.RejoinRequestType02Payload:
		t = append(t, "RJ02", strconv.Itoa(int(v.RejoinType)), strconv.FormatUint(be(v.NetID[:]), 10), strconv.FormatUint(be(v.DevEUI[:]), 10), strconv.Itoa(int(v.RJCount0)))
	case *lw.RejoinRequestType1Payload:
		t = append(t, "RJ1", strconv.Itoa(int(v.RejoinType)), strconv.FormatUint(be(v.JoinEUI[:]), 10), strconv.FormatUint(be(v.DevEUI[:]), 10), strconv.Itoa(int(v.RJCount1)))
	case *lw.DataPayload:
		t = append(t, "DATA", hx(v.Bytes))
	default:
		t = append(t, fmt.Sprintf("?%T", v))
	}
	return strings.Join(t, " ")
}

type tokReader struct {
	t      []string
	i      int
	inputs []guardedBuf
	exact  bool // hand out buffers whose capacity equals their length (a slice expression beyond the length panics)
}

func (r *tokReader) next() (string, error) {
	if r.i >= len(r.t) {
		return "", fmt.Errorf("unexpected end of tokens")
	}
	r.i++
	return r.t[r.i-1], nil
}
func (r *tokReader) u64() (uint64, error) {
	s, err := r.next()
	if err != nil {
		return 0, err
	}
	return strconv.ParseUint(s, 10, 64)
}
func (r *tokReader) i64() (int64, error) {
	s, err := r.next()
	if err != nil {
		return 0, err
	}
	return strconv.ParseInt(s, 10, 64)
}
// guardedBuf is an input buffer handed to the code under test: the bytes, 16 bytes of spare capacity filled
// with a canary, and a pristine copy. C09 / C10: decoders must not write to either.
type guardedBuf struct {
	full []byte
	orig []byte
}

func (g guardedBuf) written() bool { return !bytes.Equal(g.full, g.orig) }

func (r *tokReader) hex() ([]byte, error) {
	s, err := r.next()
	if err != nil {
		return nil, err
	}
	b0, err := unhx(s)
	if err != nil {
		return nil, err
	}
	if r.exact {
		e := make([]byte, len(b0))
		copy(e, b0)
		return e, nil
	}
	full := make([]byte, len(b0)+16)
	copy(full, b0)
	for i := len(b0); i < len(full); i++ {
		full[i] = 0x5a
	}
	r.inputs = append(r.inputs, guardedBuf{full: full, orig: append([]byte{}, full...)})
	return full[:len(b0)], nil
}
// guard hands out a copy of b the way hex() does (exact capacity in the first run, guarded in the second), for inputs that do not come
// from a hex token
func (r *tokReader) guard(b0 []byte) []byte {
	if r.exact {
		return append(make([]byte, 0, len(b0)), b0...)
	}
	full := make([]byte, len(b0)+16)
	copy(full, b0)
	for i := len(b0); i < len(full); i++ {
		full[i] = 0x5a
	}
	r.inputs = append(r.inputs, guardedBuf{full: full, orig: append([]byte{}, full...)})
	return full[:len(b0)]
}
func (r *tokReader) boolean() (bool, error) {
	v, err := r.u64()
	return v != 0, err
}
func (r *tokReader) key() (lw.AES128Key, error) {
	var k lw.AES128Key
	b, err := r.hex()
	if err != nil {
		return k, err
	}
	if len(b) != 16 {
		return k, fmt.Errorf("key must be 16 bytes")
	}
	copy(k[:], b)
	return k, nil
}
func (r *tokReader) rest() []string { out := r.t[r.i:]; r.i = len(r.t); return out }

func (r *tokReader) items() ([]lw.Payload, error) {
	n, err := r.u64()
	if err != nil {
		return nil, err
	}
	var out []lw.Payload
	for i := uint64(0); i < n; i++ {
		s, err := r.next()
		if err != nil {
			return nil, err
		}
		it, err := parseItem(s)
		if err != nil {
			return nil, err
		}
		out = append(out, it)
	}
	return out, nil
}

func parseFrame(r *tokReader) (*lw.PHYPayload, error) {
	p := &lw.PHYPayload{}
	mt, err := r.u64()
	if err != nil {
		return nil, err
	}
	mj, err := r.u64()
	if err != nil {
		return nil, err
	}
	mic, err := r.hex()
	if err != nil {
		return nil, err
	}
	if len(mic) != 4 {
		return nil, fmt.Errorf("mic must be 4 bytes")
	}
	p.MHDR.MType = lw.MType(mt)
	p.MHDR.Major = lw.Major(mj)
	copy(p.MIC[:], mic)
	kind, err := r.next()
	if err != nil {
		return nil, err
	}
	switch kind {
	case "NIL":
	case "MAC":
		m := &lw.MACPayload{}
		a, err := r.u64()
		if err != nil {
			return nil, err
		}
		putBE(m.FHDR.DevAddr[:], a)
		fc, err := r.next()
		if err != nil || len(fc) != 5 {
			return nil, fmt.Errorf("bad fctrl")
		}
		m.FHDR.FCtrl = lw.FCtrl{ADR: fc[0] == '1', ADRACKReq: fc[1] == '1', ACK: fc[2] == '1', FPending: fc[3] == '1', ClassB: fc[4] == '1'}
		cnt, err := r.u64()
		if err != nil {
			return nil, err
		}
		m.FHDR.FCnt = uint32(cnt)
		if m.FHDR.FOpts, err = r.items(); err != nil {
			return nil, err
		}
		fp, err := r.next()
		if err != nil {
			return nil, err
		}
		if fp != "-" {
			v, err := strconv.Atoi(fp)
			if err != nil {
				return nil, err
			}
			b := uint8(v)
			m.FPort = &b
		}
		if m.FRMPayload, err = r.items(); err != nil {
			return nil, err
		}
		p.MACPayload = m
	case "JR":
		j := &lw.JoinRequestPayload{}
		a, err := r.u64()
		if err != nil {
			return nil, err
		}
		b, err := r.u64()
		if err != nil {
			return nil, err
		}
		c, err := r.u64()
		if err != nil {
			return nil, err
		}
		putBE(j.JoinEUI[:], a)
		putBE(j.DevEUI[:], b)
		j.DevNonce = lw.DevNonce(c)
		p.MACPayload = j
	case "JA":
		j := &lw.JoinAcceptPayload{}
		var v [7]uint64
		for i := range v {
			if v[i], err = r.u64(); err != nil {
				return nil, err
			}
		}
		j.JoinNonce = lw.JoinNonce(v[0])
		putBE(j.HomeNetID[:], v[1])
		putBE(j.DevAddr[:], v[2])
		j.DLSettings = lw.DLSettings{OptNeg: v[3] != 0, RX2DataRate: uint8(v[4]), RX1DROffset: uint8(v[5])}
		j.RXDelay = uint8(v[6])
		cs, err := r.next()
		if err != nil {
			return nil, err
		}
		if j.CFList, err = parseCFList(cs); err != nil {
			return nil, err
		}
		p.MACPayload = j
	case "RJ02":
		j := &lw.RejoinRequestType02Payload{}
		var v [4]uint64
		for i := range v {
			if v[i], err = r.u64(); err != nil {
				return nil, err
			}
		}
		j.RejoinType = lw.JoinType(v[0])
		putBE(j.NetID[:], v[1])
		putBE(j.DevEUI[:], v[2])
		j.RJCount0 = uint16(v[3])
		p.MACPayload = j
	case "RJ1":
		j := &lw.RejoinRequestType1Payload{}
		var v [4]uint64
		for i := range v {
			if v[i], err = r.u64(); err != nil {
				return nil, err
			}
		}
		j.RejoinType = lw.JoinType(v[0])
		putBE(j.JoinEUI[:], v[1])
		putBE(j.DevEUI[:], v[2])
		j.RJCount1 = uint16(v[3])
		p.MACPayload = j
	case "DATA":
		b, err := r.hex()
		if err != nil {
			return nil, err
		}
		p.MACPayload = &lw.DataPayload{Bytes: b}
	default:
		return nil, fmt.Errorf("bad frame kind %q", kind)
	}
	return p, nil
}
