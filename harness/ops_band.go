package main

// C12–C15: band queries. Every op builds a fresh band with band.GetConfig, applies an optional history of
// AddChannel / Disable / Enable operations and then runs one query; nothing is shared between ops.

import (
	"fmt"
	"strconv"
	"strings"
	"time"

	lw "github.com/brocaar/lorawan"
	"github.com/brocaar/lorawan/band"
)

func intList(xs []int) string {
	if len(xs) == 0 {
		return "-"
	}
	p := make([]string, len(xs))
	for i, x := range xs {
		p[i] = strconv.Itoa(x)
	}
	return strings.Join(p, ",")
}

func parseIntList(s string) ([]int, error) {
	if s == "-" {
		return nil, nil
	}
	var out []int
	for _, t := range strings.Split(s, ",") {
		v, err := strconv.Atoi(t)
		if err != nil {
			return nil, err
		}
		out = append(out, v)
	}
	return out, nil
}

func chanList(cs []band.VerifChannel) string {
	if len(cs) == 0 {
		return "-"
	}
	p := make([]string, len(cs))
	for i, c := range cs {
		p[i] = fmt.Sprintf("%d:%d:%d:%d:%d", c.Channel.Frequency, c.Channel.MinDR, c.Channel.MaxDR, b2i(c.Enabled), b2i(c.Custom))
	}
	return strings.Join(p, ";")
}

func planTok(p lw.LinkADRReqPayload) string {
	return fmt.Sprintf("%d:%d:%d:%d:%d", p.Redundancy.ChMaskCntl, chMaskToU16(p.ChMask), p.DataRate, p.TXPower, p.Redundancy.NbRep)
}

func planList(ps []lw.LinkADRReqPayload) string {
	if len(ps) == 0 {
		return "-"
	}
	out := make([]string, len(ps))
	for i, p := range ps {
		out[i] = planTok(p)
	}
	return strings.Join(out, ",")
}

func parsePlans(s string) ([]lw.LinkADRReqPayload, error) {
	if s == "-" {
		return nil, nil
	}
	var out []lw.LinkADRReqPayload
	for _, t := range strings.Split(s, ",") {
		f := strings.Split(t, ":")
		if len(f) != 5 {
			return nil, fmt.Errorf("bad plan %q", t)
		}
		var v [5]int64
		for i := range v {
			x, err := strconv.ParseInt(f[i], 10, 64)
			if err != nil {
				return nil, err
			}
			v[i] = x
		}
		out = append(out, lw.LinkADRReqPayload{DataRate: uint8(v[2]), TXPower: uint8(v[3]), ChMask: u16ToChMask(v[1]), Redundancy: lw.Redundancy{ChMaskCntl: uint8(v[0]), NbRep: uint8(v[4])}})
	}
	return out, nil
}

// guarded runs f and maps error / panic to the canonical tokens.
func guarded(f func() (string, error)) (res string) {
	defer func() {
		if x := recover(); x != nil {
			res = resPANIC
		}
	}()
	s, err := f()
	if err != nil {
		return resERR
	}
	return s
}

func applyHistory(b band.Band, hist string) (string, error) {
	if hist == "-" {
		return "-", nil
	}
	var codes []byte
	for _, t := range strings.Split(hist, ",") {
		f := strings.Split(t, ":")
		var r string
		switch f[0] {
		case "a":
			if len(f) != 4 {
				return "", fmt.Errorf("bad history op %q", t)
			}
			fr, e1 := strconv.ParseUint(f[1], 10, 32)
			mn, e2 := strconv.Atoi(f[2])
			mx, e3 := strconv.Atoi(f[3])
			if e1 != nil || e2 != nil || e3 != nil {
				return "", fmt.Errorf("bad history op %q", t)
			}
			r = guarded(func() (string, error) { return "0", b.AddChannel(uint32(fr), mn, mx) })
		case "d", "e":
			if len(f) != 2 {
				return "", fmt.Errorf("bad history op %q", t)
			}
			i, err := strconv.Atoi(f[1])
			if err != nil {
				return "", err
			}
			if f[0] == "d" {
				r = guarded(func() (string, error) { return "0", b.DisableUplinkChannelIndex(i) })
			} else {
				r = guarded(func() (string, error) { return "0", b.EnableUplinkChannelIndex(i) })
			}
		default:
			return "", fmt.Errorf("bad history op %q", t)
		}
		switch r {
		case "0":
			codes = append(codes, '0')
		case resERR:
			codes = append(codes, 'E')
		default:
			codes = append(codes, 'P')
		}
	}
	return string(codes), nil
}

func fmtCFListPtr(l *lw.CFList) string { return fmtCFList(l) }

func init() {
	opTable["bq"] = func(r *tokReader) (string, error) {
		key, err := r.next()
		if err != nil {
			return "", err
		}
		rep, err := r.boolean()
		if err != nil {
			return "", err
		}
		dw, err := r.u64()
		if err != nil {
			return "", err
		}
		hist, err := r.next()
		if err != nil {
			return "", err
		}
		q, err := r.next()
		if err != nil {
			return "", err
		}
		b, e := band.GetConfig(band.Name(key), rep, lw.DwellTime(dw))
		if e != nil {
			return resERR, nil
		}
		h, err := applyHistory(b, hist)
		if err != nil {
			return "", err
		}
		args := r.rest()
		ai := func(i int) (int, error) {
			if i >= len(args) {
				return 0, fmt.Errorf("missing arg")
			}
			return strconv.Atoi(args[i])
		}
		au := func(i int) (uint64, error) {
			if i >= len(args) {
				return 0, fmt.Errorf("missing arg")
			}
			return strconv.ParseUint(args[i], 10, 64)
		}
		pre := "h=" + h + " "
		var perr error
		out := guarded(func() (string, error) {
			switch q {
			case "rx1dr":
				dr, e1 := ai(0)
				off, e2 := ai(1)
				if e1 != nil || e2 != nil {
					perr = fmt.Errorf("args")
					return "", nil
				}
				v, err := b.GetRX1DataRateIndex(dr, off)
				return strconv.Itoa(v), err
			case "rx1chan":
				i, e1 := ai(0)
				if e1 != nil {
					perr = e1
					return "", nil
				}
				v, err := b.GetRX1ChannelIndexForUplinkChannelIndex(i)
				return strconv.Itoa(v), err
			case "rx1freq":
				f, e1 := au(0)
				if e1 != nil {
					perr = e1
					return "", nil
				}
				v, err := b.GetRX1FrequencyForUplinkFrequency(uint32(f))
				return strconv.FormatUint(uint64(v), 10), err
			case "maxpl":
				if len(args) != 3 {
					perr = fmt.Errorf("args")
					return "", nil
				}
				dr, e1 := ai(2)
				if e1 != nil {
					perr = e1
					return "", nil
				}
				v, err := b.GetMaxPayloadSizeForDataRateIndex(args[0], args[1], dr)
				return fmt.Sprintf("%d %d", v.M, v.N), err
			case "dr":
				i, e1 := ai(0)
				if e1 != nil {
					perr = e1
					return "", nil
				}
				d, err := b.GetDataRate(i)
				if err != nil {
					return "", err
				}
				s, _ := band.VerifSnapshotOf(b)
				fl := s.DataRates[i]
				return fmt.Sprintf("%d %d %d %d %d %d %d %d", b2i(fl.Uplink), b2i(fl.Downlink), modulationCode[d.Modulation], d.SpreadFactor, d.Bandwidth, d.BitRate, codingRateCode[d.CodingRate], d.OccupiedChannelWidth), nil
			case "dridx":
				var v [7]int
				for i := range v {
					x, e1 := ai(i)
					if e1 != nil {
						perr = e1
						return "", nil
					}
					v[i] = x
				}
				mods := []band.Modulation{band.LoRaModulation, band.FSKModulation, band.LRFHSSModulation}
				crs := []string{"", "1/3", "4/6"}
				if v[1] < 0 || v[1] > 2 || v[5] < 0 || v[5] > 2 {
					perr = fmt.Errorf("args")
					return "", nil
				}
				idx, err := b.GetDataRateIndex(v[0] != 0, band.DataRate{Modulation: mods[v[1]], SpreadFactor: v[2], Bandwidth: v[3], BitRate: v[4], CodingRate: crs[v[5]], OccupiedChannelWidth: v[6]})
				return strconv.Itoa(idx), err
			case "txpow":
				i, e1 := ai(0)
				if e1 != nil {
					perr = e1
					return "", nil
				}
				v, err := b.GetTXPowerOffset(i)
				return strconv.Itoa(v), err
			case "ping":
				a, e1 := au(0)
				if e1 != nil || len(args) < 2 {
					perr = fmt.Errorf("args")
					return "", nil
				}
				ns, e2 := strconv.ParseInt(args[1], 10, 64)
				if e2 != nil {
					perr = e2
					return "", nil
				}
				var da lw.DevAddr
				putBE(da[:], a)
				v, err := b.GetPingSlotFrequency(da, time.Duration(ns))
				return strconv.FormatUint(uint64(v), 10), err
			case "defaults":
				d := b.GetDefaults()
				return fmt.Sprintf("%d %d %d %d %d %d", d.RX2Frequency, d.RX2DataRate, int64(d.ReceiveDelay1), int64(d.ReceiveDelay2), int64(d.JoinAcceptDelay1), int64(d.JoinAcceptDelay2)), nil
			case "txparam":
				if len(args) != 1 {
					perr = fmt.Errorf("args")
					return "", nil
				}
				return strconv.FormatInt(b2i(b.ImplementsTXParamSetup(args[0])), 10), nil
			case "state":
				s, _ := band.VerifSnapshotOf(b)
				return fmt.Sprintf("up=%s down=%s all=%s std=%s cus=%s en=%s dis=%s drs=%s", chanList(s.UplinkChannels), chanList(s.DownlinkChannels),
					intList(b.GetUplinkChannelIndices()), intList(b.GetStandardUplinkChannelIndices()), intList(b.GetCustomUplinkChannelIndices()),
					intList(b.GetEnabledUplinkChannelIndices()), intList(b.GetDisabledUplinkChannelIndices()), intList(b.GetEnabledUplinkDataRates())), nil
			case "chan":
				i, e1 := ai(0)
				if e1 != nil {
					perr = e1
					return "", nil
				}
				one := func(get func(int) (band.Channel, error)) string {
					return guarded(func() (string, error) {
						c, err := get(i)
						if err != nil {
							return "", err
						}
						return fmt.Sprintf("%d:%d:%d", c.Frequency, c.MinDR, c.MaxDR), nil
					})
				}
				return one(b.GetUplinkChannel) + " " + one(b.GetDownlinkChannel), nil
			case "chanmac":
				i, e1 := ai(0)
				if e1 != nil {
					perr = e1
					return "", nil
				}
				c, err := b.GetUplinkChannel(i)
				if err != nil {
					return "", err
				}
				hd := fmt.Sprintf("%d:%d:%d", c.Frequency, c.MinDR, c.MaxDR)
				if i < 0 || i > 255 || c.MinDR < 0 || c.MinDR > 255 || c.MaxDR < 0 || c.MaxDR > 255 {
					return hd + " na", nil
				}
				req := lw.NewChannelReqPayload{ChIndex: uint8(i), Freq: c.Frequency, MinDR: uint8(c.MinDR), MaxDR: uint8(c.MaxDR)}
				bin, err := req.MarshalBinary()
				if err != nil {
					return hd + " enc=0", nil
				}
				var got lw.NewChannelReqPayload
				if err := got.UnmarshalBinary(bin); err != nil || got != req {
					return hd + " enc=1 rt=0", nil
				}
				return hd + " enc=1 rt=1", nil
			case "idx":
				f, e1 := au(0)
				d, e2 := ai(1)
				if e1 != nil || e2 != nil {
					perr = fmt.Errorf("args")
					return "", nil
				}
				v, err := b.GetUplinkChannelIndex(uint32(f), d != 0)
				return strconv.Itoa(v), err
			case "idxdr":
				f, e1 := au(0)
				d, e2 := ai(1)
				if e1 != nil || e2 != nil {
					perr = fmt.Errorf("args")
					return "", nil
				}
				v, err := b.GetUplinkChannelIndexForFrequencyDR(uint32(f), d)
				return strconv.Itoa(v), err
			case "cflist":
				if len(args) != 1 {
					perr = fmt.Errorf("args")
					return "", nil
				}
				// the CFList, and whether the MAC layer can carry it: encoded inside a join-accept payload and decoded back
				// (mac=1 same values, mac=0 not encodable or decoded differently, mac=- no CFList)
				cf := b.GetCFList(args[0])
				mac := "-"
				if cf != nil {
					mac = "0"
					ja := lw.JoinAcceptPayload{CFList: cf}
					if bs, e := ja.MarshalBinary(); e == nil {
						var back lw.JoinAcceptPayload
						if e := back.UnmarshalBinary(false, bs); e == nil && fmtCFListPtr(back.CFList) == fmtCFListPtr(cf) {
							mac = "1"
						}
					}
				}
				return fmtCFListPtr(cf) + " mac=" + mac, nil
			case "plan":
				if len(args) != 1 {
					perr = fmt.Errorf("args")
					return "", nil
				}
				dev, e1 := parseIntList(args[0])
				if e1 != nil {
					perr = e1
					return "", nil
				}
				return planList(b.GetLinkADRReqPayloadsForEnabledUplinkChannelIndices(dev)), nil
			case "apply":
				if len(args) != 2 {
					perr = fmt.Errorf("args")
					return "", nil
				}
				dev, e1 := parseIntList(args[0])
				pls, e2 := parsePlans(args[1])
				if e1 != nil || e2 != nil {
					perr = fmt.Errorf("args")
					return "", nil
				}
				v, err := b.GetEnabledUplinkChannelIndicesForLinkADRReqPayloads(dev, pls)
				return intList(v), err
			case "planapply":
				if len(args) != 1 {
					perr = fmt.Errorf("args")
					return "", nil
				}
				dev, e1 := parseIntList(args[0])
				if e1 != nil {
					perr = e1
					return "", nil
				}
				pls := b.GetLinkADRReqPayloadsForEnabledUplinkChannelIndices(dev)
				enc := "1"
				for _, p := range pls {
					if _, err := p.MarshalBinary(); err != nil {
						enc = "0"
					}
				}
				ap := guarded(func() (string, error) {
					v, err := b.GetEnabledUplinkChannelIndicesForLinkADRReqPayloads(dev, pls)
					return intList(v), err
				})
				return planList(pls) + " " + enc + " " + ap, nil
			}
			perr = fmt.Errorf("unknown query %q", q)
			return "", nil
		})
		if perr != nil {
			return "", perr
		}
		if out == resPANIC {
			return resPANIC, nil
		}
		if out == resERR {
			return okStr(pre + resERR), nil
		}
		return okStr(pre + out), nil
	}
}
