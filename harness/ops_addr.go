package main

// C11: DevAddr / NetID prefix algebra and identifier representations.

import (
	"database/sql/driver"
	"fmt"

	lw "github.com/brocaar/lorawan"
)

type textCodec interface {
	MarshalText() ([]byte, error)
	MarshalBinary() ([]byte, error)
	Value() (driver.Value, error)
}

func idOf(kind string) (get func() []byte, val textCodec, untext func([]byte) error, unbin func([]byte) error, scan func(interface{}) error, set func([]byte) bool) {
	switch kind {
	case "EUI64":
		v := &lw.EUI64{}
		return func() []byte { return v[:] }, v, v.UnmarshalText, v.UnmarshalBinary, v.Scan, func(b []byte) bool { return copy(v[:], b) == 8 && len(b) == 8 }
	case "DevAddr":
		v := &lw.DevAddr{}
		return func() []byte { return v[:] }, v, v.UnmarshalText, v.UnmarshalBinary, v.Scan, func(b []byte) bool { return copy(v[:], b) == 4 && len(b) == 4 }
	case "NetID":
		v := &lw.NetID{}
		return func() []byte { return v[:] }, v, v.UnmarshalText, v.UnmarshalBinary, v.Scan, func(b []byte) bool { return copy(v[:], b) == 3 && len(b) == 3 }
	case "AES128Key":
		v := &lw.AES128Key{}
		return func() []byte { return v[:] }, v, v.UnmarshalText, v.UnmarshalBinary, v.Scan, func(b []byte) bool { return copy(v[:], b) == 16 && len(b) == 16 }
	}
	return nil, nil, nil, nil, nil, nil
}

func init() {
	two := func(r *tokReader) (lw.NetID, lw.DevAddr, error) {
		var n lw.NetID
		var a lw.DevAddr
		x, err := r.u64()
		if err != nil {
			return n, a, err
		}
		y, err := r.u64()
		if err != nil {
			return n, a, err
		}
		putBE(n[:], x)
		putBE(a[:], y)
		return n, a, nil
	}
	opTable["setprefix"] = func(r *tokReader) (string, error) {
		n, a, err := two(r)
		if err != nil {
			return "", err
		}
		a.SetAddrPrefix(n)
		return okStr(fmt.Sprint(be(a[:]))), nil
	}
	opTable["isnetid"] = func(r *tokReader) (string, error) {
		n, a, err := two(r)
		if err != nil {
			return "", err
		}
		return okStr(fmt.Sprint(b2i(a.IsNetID(n)))), nil
	}
	opTable["nwkid"] = func(r *tokReader) (string, error) {
		y, err := r.u64()
		if err != nil {
			return "", err
		}
		var a lw.DevAddr
		putBE(a[:], y)
		b := a.NwkID()
		if b == nil {
			return okStr(fmt.Sprintf("%d nil", a.NetIDType())), nil
		}
		return okStr(fmt.Sprintf("%d %s", a.NetIDType(), hx(b))), nil
	}
	opTable["netidinfo"] = func(r *tokReader) (string, error) {
		x, err := r.u64()
		if err != nil {
			return "", err
		}
		var n lw.NetID
		putBE(n[:], x)
		return okStr(fmt.Sprintf("%d %s", n.Type(), hx(n.ID()))), nil
	}
	// representations: idrepr <Type> <hex value>  => ok t<text> x<binary> x<value>
	opTable["idrepr"] = func(r *tokReader) (string, error) {
		kind, err := r.next()
		if err != nil {
			return "", err
		}
		b, err := r.hex()
		if err != nil {
			return "", err
		}
		_, val, _, _, _, set := idOf(kind)
		if val == nil || !set(b) {
			return "", fmt.Errorf("bad id")
		}
		t, e1 := val.MarshalText()
		bin, e2 := val.MarshalBinary()
		dv, e3 := val.Value()
		if e1 != nil || e2 != nil || e3 != nil {
			return resERR, nil
		}
		dvb, ok := dv.([]byte)
		if !ok {
			return resERR, nil
		}
		return okStr("t" + string(t) + " " + hx(bin) + " " + hx(dvb)), nil
	}
	// idparse <Type> <text|bin|scan> <arg>  => ok x<value> | ERR
	opTable["idparse"] = func(r *tokReader) (string, error) {
		kind, err := r.next()
		if err != nil {
			return "", err
		}
		how, err := r.next()
		if err != nil {
			return "", err
		}
		arg, err := r.next()
		if err != nil {
			return "", err
		}
		get, val, untext, unbin, scan, _ := idOf(kind)
		if val == nil {
			return "", fmt.Errorf("bad id kind")
		}
		var e error
		switch how {
		case "text":
			e = untext(r.guard([]byte(arg[1:])))
		case "bin":
			b, err := unhx(arg)
			if err != nil {
				return "", err
			}
			e = unbin(r.guard(b))
		case "scan":
			b, err := unhx(arg)
			if err != nil {
				return "", err
			}
			e = scan(r.guard(b))
		case "scanstr":
			e = scan(arg)
		default:
			return "", fmt.Errorf("bad how")
		}
		if e != nil {
			return resERR, nil
		}
		return okStr(hx(get())), nil
	}
}
