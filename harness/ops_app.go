package main

// C18: application-layer packages (clocksync, multicastsetup, fragmentation, firmwaremanagement).
//
// Canonical command token:  A:<cid>:-                      command without payload
//                           A:<cid>:<Name>(f1,f2,...)      Name = Go payload type without "Payload"
// fields are the struct fields flattened in declaration order: integers in decimal, bools 0/1, [4]bool as four
// fields, byte arrays / slices / DevAddr as x<hex>, *uint32 as nil or decimal, a slice of structs as its length
// followed by the flattened elements.

import (
	"fmt"
	"reflect"
	"sort"
	"strconv"
	"strings"
	"unsafe"

	lw "github.com/brocaar/lorawan"
	"github.com/brocaar/lorawan/applayer/clocksync"
	"github.com/brocaar/lorawan/applayer/firmwaremanagement"
	"github.com/brocaar/lorawan/applayer/fragmentation"
	"github.com/brocaar/lorawan/applayer/multicastsetup"
)

type appPayload interface {
	MarshalBinary() ([]byte, error)
	UnmarshalBinary([]byte) error
	Size() int
}

type appCmd struct {
	cid     byte
	payload appPayload // nil = no payload
}

// appPkg adapts one package's Command / Commands types.
type appPkg struct {
	name     string
	get      func(up bool, cid byte) (appPayload, bool)
	encCmd   func(c appCmd) ([]byte, error)
	sizeCmd  func(c appCmd) int
	decCmd   func(up bool, b []byte) (appCmd, error)
	encSeq   func(cs []appCmd) ([]byte, error)
	decSeq   func(up bool, b []byte) ([]appCmd, error)
	reuseSeq func(up bool, b1, b2 []byte) (string, error)
}

func asPayload(x interface{}) appPayload {
	if x == nil {
		return nil
	}
	v := reflect.ValueOf(x)
	if v.Kind() == reflect.Ptr && v.IsNil() {
		return nil
	}
	return x.(appPayload)
}

var appPkgs = map[string]*appPkg{
	"clocksync": {
		name: "clocksync",
		get: func(up bool, cid byte) (appPayload, bool) {
			p, err := clocksync.GetCommandPayload(up, clocksync.CID(cid))
			return asPayload(p), err == nil
		},
		encCmd:  func(c appCmd) ([]byte, error) { return csCmd(c).MarshalBinary() },
		sizeCmd: func(c appCmd) int { return csCmd(c).Size() },
		decCmd: func(up bool, b []byte) (appCmd, error) {
			var c clocksync.Command
			err := c.UnmarshalBinary(up, b)
			return appCmd{byte(c.CID), asPayload(c.Payload)}, err
		},
		encSeq: func(cs []appCmd) ([]byte, error) {
			var l clocksync.Commands
			for _, c := range cs {
				l = append(l, csCmd(c))
			}
			return l.MarshalBinary()
		},
		decSeq: func(up bool, b []byte) ([]appCmd, error) {
			var l clocksync.Commands
			err := l.UnmarshalBinary(up, b)
			var out []appCmd
			for _, c := range l {
				out = append(out, appCmd{byte(c.CID), asPayload(c.Payload)})
			}
			return out, err
		},
		reuseSeq: func(up bool, b1, b2 []byte) (string, error) {
			var used, fresh clocksync.Commands
			used.UnmarshalBinary(up, b1)
			e1 := used.UnmarshalBinary(up, b2)
			e2 := fresh.UnmarshalBinary(up, b2)
			if (e1 == nil) != (e2 == nil) {
				return "DIFF error", nil
			}
			if e2 != nil {
				return "same", nil
			}
			f := func(l clocksync.Commands) string {
				var out []appCmd
				for _, c := range l {
					out = append(out, appCmd{byte(c.CID), asPayload(c.Payload)})
				}
				return fmtAppCmds(out)
			}
			if f(used) != f(fresh) {
				return "DIFF", nil
			}
			return "same", nil
		},
	},
	"multicastsetup": {
		name: "multicastsetup",
		get: func(up bool, cid byte) (appPayload, bool) {
			p, err := multicastsetup.GetCommandPayload(up, multicastsetup.CID(cid))
			return asPayload(p), err == nil
		},
		encCmd:  func(c appCmd) ([]byte, error) { return mcCmd(c).MarshalBinary() },
		sizeCmd: func(c appCmd) int { return mcCmd(c).Size() },
		decCmd: func(up bool, b []byte) (appCmd, error) {
			var c multicastsetup.Command
			err := c.UnmarshalBinary(up, b)
			return appCmd{byte(c.CID), asPayload(c.Payload)}, err
		},
		encSeq: func(cs []appCmd) ([]byte, error) {
			var l multicastsetup.Commands
			for _, c := range cs {
				l = append(l, mcCmd(c))
			}
			return l.MarshalBinary()
		},
		decSeq: func(up bool, b []byte) ([]appCmd, error) {
			var l multicastsetup.Commands
			err := l.UnmarshalBinary(up, b)
			var out []appCmd
			for _, c := range l {
				out = append(out, appCmd{byte(c.CID), asPayload(c.Payload)})
			}
			return out, err
		},
		reuseSeq: func(up bool, b1, b2 []byte) (string, error) {
			var used, fresh multicastsetup.Commands
			used.UnmarshalBinary(up, b1)
			e1 := used.UnmarshalBinary(up, b2)
			e2 := fresh.UnmarshalBinary(up, b2)
			if (e1 == nil) != (e2 == nil) {
				return "DIFF error", nil
			}
			if e2 != nil {
				return "same", nil
			}
			f := func(l multicastsetup.Commands) string {
				var out []appCmd
				for _, c := range l {
					out = append(out, appCmd{byte(c.CID), asPayload(c.Payload)})
				}
				return fmtAppCmds(out)
			}
			if f(used) != f(fresh) {
				return "DIFF", nil
			}
			return "same", nil
		},
	},
	"fragmentation": {
		name: "fragmentation",
		get: func(up bool, cid byte) (appPayload, bool) {
			p, err := fragmentation.GetCommandPayload(up, fragmentation.CID(cid))
			return asPayload(p), err == nil
		},
		encCmd:  func(c appCmd) ([]byte, error) { return frCmd(c).MarshalBinary() },
		sizeCmd: func(c appCmd) int { return frCmd(c).Size() },
		decCmd: func(up bool, b []byte) (appCmd, error) {
			var c fragmentation.Command
			err := c.UnmarshalBinary(up, b)
			return appCmd{byte(c.CID), asPayload(c.Payload)}, err
		},
		encSeq: func(cs []appCmd) ([]byte, error) {
			var l fragmentation.Commands
			for _, c := range cs {
				l = append(l, frCmd(c))
			}
			return l.MarshalBinary()
		},
		decSeq: func(up bool, b []byte) ([]appCmd, error) {
			var l fragmentation.Commands
			err := l.UnmarshalBinary(up, b)
			var out []appCmd
			for _, c := range l {
				out = append(out, appCmd{byte(c.CID), asPayload(c.Payload)})
			}
			return out, err
		},
		reuseSeq: func(up bool, b1, b2 []byte) (string, error) {
			var used, fresh fragmentation.Commands
			used.UnmarshalBinary(up, b1)
			e1 := used.UnmarshalBinary(up, b2)
			e2 := fresh.UnmarshalBinary(up, b2)
			if (e1 == nil) != (e2 == nil) {
				return "DIFF error", nil
			}
			if e2 != nil {
				return "same", nil
			}
			f := func(l fragmentation.Commands) string {
				var out []appCmd
				for _, c := range l {
					out = append(out, appCmd{byte(c.CID), asPayload(c.Payload)})
				}
				return fmtAppCmds(out)
			}
			if f(used) != f(fresh) {
				return "DIFF", nil
			}
			return "same", nil
		},
	},
	"firmwaremanagement": {
		name: "firmwaremanagement",
		get: func(up bool, cid byte) (appPayload, bool) {
			p, err := firmwaremanagement.GetCommandPayload(up, firmwaremanagement.CID(cid))
			return asPayload(p), err == nil
		},
		encCmd:  func(c appCmd) ([]byte, error) { return fwCmd(c).MarshalBinary() },
		sizeCmd: func(c appCmd) int { return fwCmd(c).Size() },
		decCmd: func(up bool, b []byte) (appCmd, error) {
			var c firmwaremanagement.Command
			err := c.UnmarshalBinary(up, b)
			return appCmd{byte(c.CID), asPayload(c.Payload)}, err
		},
		encSeq: func(cs []appCmd) ([]byte, error) {
			var l firmwaremanagement.Commands
			for _, c := range cs {
				l = append(l, fwCmd(c))
			}
			return l.MarshalBinary()
		},
		decSeq: func(up bool, b []byte) ([]appCmd, error) {
			var l firmwaremanagement.Commands
			err := l.UnmarshalBinary(up, b)
			var out []appCmd
			for _, c := range l {
				out = append(out, appCmd{byte(c.CID), asPayload(c.Payload)})
			}
			return out, err
		},
		reuseSeq: func(up bool, b1, b2 []byte) (string, error) {
			var used, fresh firmwaremanagement.Commands
			used.UnmarshalBinary(up, b1)
			e1 := used.UnmarshalBinary(up, b2)
			e2 := fresh.UnmarshalBinary(up, b2)
			if (e1 == nil) != (e2 == nil) {
				return "DIFF error", nil
			}
			if e2 != nil {
				return "same", nil
			}
			f := func(l firmwaremanagement.Commands) string {
				var out []appCmd
				for _, c := range l {
					out = append(out, appCmd{byte(c.CID), asPayload(c.Payload)})
				}
				return fmtAppCmds(out)
			}
			if f(used) != f(fresh) {
				return "DIFF", nil
			}
			return "same", nil
		},
	},
}

func csCmd(c appCmd) clocksync.Command {
	o := clocksync.Command{CID: clocksync.CID(c.cid)}
	if c.payload != nil {
		o.Payload = c.payload
	}
	return o
}
func mcCmd(c appCmd) multicastsetup.Command {
	o := multicastsetup.Command{CID: multicastsetup.CID(c.cid)}
	if c.payload != nil {
		o.Payload = c.payload
	}
	return o
}
func frCmd(c appCmd) fragmentation.Command {
	o := fragmentation.Command{CID: fragmentation.CID(c.cid)}
	if c.payload != nil {
		o.Payload = c.payload
	}
	return o
}
func fwCmd(c appCmd) firmwaremanagement.Command {
	o := firmwaremanagement.Command{CID: firmwaremanagement.CID(c.cid)}
	if c.payload != nil {
		o.Payload = c.payload
	}
	return o
}

var appPkgNames = []string{"clocksync", "multicastsetup", "fragmentation", "firmwaremanagement"}

// appTypes[pkg][Name] = reflect.Type of the payload struct, discovered through the package's own registry.
type appRegEntry struct {
	up   bool
	cid  int
	name string
	size int // Size() of the zero value
}

var appTypes = map[string]map[string]reflect.Type{}
var appRegistry = map[string][]appRegEntry{}

func init() {
	for _, pn := range appPkgNames {
		pk := appPkgs[pn]
		appTypes[pn] = map[string]reflect.Type{}
		for _, up := range []bool{false, true} {
			for cid := 0; cid < 256; cid++ {
				p, ok := pk.get(up, byte(cid))
				if !ok || p == nil {
					continue
				}
				t := reflect.TypeOf(p).Elem()
				name := strings.TrimSuffix(t.Name(), "Payload")
				appTypes[pn][name] = t
				appRegistry[pn] = append(appRegistry[pn], appRegEntry{up, cid, name, p.Size()})
			}
		}
	}
}

// ---- flatten / unflatten by reflection ----

func isByteSeq(t reflect.Type) bool {
	return (t.Kind() == reflect.Array || t.Kind() == reflect.Slice) && t.Elem().Kind() == reflect.Uint8
}

func flatten(v reflect.Value, out *[]string) {
	t := v.Type()
	switch {
	case isByteSeq(t):
		b := make([]byte, v.Len())
		for i := range b {
			b[i] = byte(v.Index(i).Uint())
		}
		*out = append(*out, hx(b))
	case t.Kind() == reflect.Array: // [4]bool
		for i := 0; i < v.Len(); i++ {
			flatten(v.Index(i), out)
		}
	case t.Kind() == reflect.Slice:
		*out = append(*out, strconv.Itoa(v.Len()))
		for i := 0; i < v.Len(); i++ {
			flatten(v.Index(i), out)
		}
	case t.Kind() == reflect.Struct:
		for i := 0; i < v.NumField(); i++ {
			flatten(v.Field(i), out)
		}
	case t.Kind() == reflect.Ptr:
		if v.IsNil() {
			*out = append(*out, "nil")
		} else {
			flatten(v.Elem(), out)
		}
	case t.Kind() == reflect.Bool:
		*out = append(*out, strconv.FormatInt(b2i(v.Bool()), 10))
	case t.Kind() >= reflect.Int && t.Kind() <= reflect.Int64:
		*out = append(*out, strconv.FormatInt(v.Int(), 10))
	case t.Kind() >= reflect.Uint && t.Kind() <= reflect.Uint64:
		*out = append(*out, strconv.FormatUint(v.Uint(), 10))
	default:
		panic("flatten: unsupported kind " + t.Kind().String())
	}
}

func settable(v reflect.Value) reflect.Value {
	if v.CanSet() {
		return v
	}
	return reflect.NewAt(v.Type(), unsafe.Pointer(v.UnsafeAddr())).Elem() // unexported field (nextFirmwareVersion)
}

func unflatten(v reflect.Value, toks *[]string) error {
	v = settable(v)
	t := v.Type()
	next := func() (string, error) {
		if len(*toks) == 0 {
			return "", fmt.Errorf("too few fields")
		}
		s := (*toks)[0]
		*toks = (*toks)[1:]
		return s, nil
	}
	switch {
	case isByteSeq(t):
		s, err := next()
		if err != nil {
			return err
		}
		b, err := unhx(s)
		if err != nil {
			return err
		}
		if t.Kind() == reflect.Array {
			if len(b) != v.Len() {
				return fmt.Errorf("byte array of %d expected", v.Len())
			}
			for i := range b {
				v.Index(i).SetUint(uint64(b[i]))
			}
		} else {
			if s == "xnil" {
				return nil
			}
			v.SetBytes(append([]byte{}, b...))
		}
	case t.Kind() == reflect.Array:
		for i := 0; i < v.Len(); i++ {
			if err := unflatten(v.Index(i), toks); err != nil {
				return err
			}
		}
	case t.Kind() == reflect.Slice:
		s, err := next()
		if err != nil {
			return err
		}
		n, err := strconv.Atoi(s)
		if err != nil || n < 0 || n > 64 {
			return fmt.Errorf("bad count")
		}
		if n > 0 {
			sl := reflect.MakeSlice(t, n, n)
			for i := 0; i < n; i++ {
				if err := unflatten(sl.Index(i), toks); err != nil {
					return err
				}
			}
			v.Set(sl)
		}
	case t.Kind() == reflect.Struct:
		for i := 0; i < v.NumField(); i++ {
			if err := unflatten(v.Field(i), toks); err != nil {
				return err
			}
		}
	case t.Kind() == reflect.Ptr:
		if len(*toks) > 0 && (*toks)[0] == "nil" {
			*toks = (*toks)[1:]
			return nil
		}
		p := reflect.New(t.Elem())
		if err := unflatten(p.Elem(), toks); err != nil {
			return err
		}
		v.Set(p)
	case t.Kind() == reflect.Bool:
		s, err := next()
		if err != nil {
			return err
		}
		v.SetBool(s != "0")
	case t.Kind() >= reflect.Int && t.Kind() <= reflect.Int64:
		s, err := next()
		if err != nil {
			return err
		}
		n, err := strconv.ParseInt(s, 10, 64)
		if err != nil || v.OverflowInt(n) {
			return fmt.Errorf("bad int %q", s)
		}
		v.SetInt(n)
	case t.Kind() >= reflect.Uint && t.Kind() <= reflect.Uint64:
		s, err := next()
		if err != nil {
			return err
		}
		n, err := strconv.ParseUint(s, 10, 64)
		if err != nil || v.OverflowUint(n) {
			return fmt.Errorf("bad uint %q", s)
		}
		v.SetUint(n)
	default:
		return fmt.Errorf("unflatten: unsupported kind %s", t.Kind())
	}
	return nil
}

func fmtAppCmd(c appCmd) string {
	if c.payload == nil {
		return fmt.Sprintf("A:%d:-", c.cid)
	}
	v := reflect.ValueOf(c.payload).Elem()
	var f []string
	flatten(v, &f)
	return fmt.Sprintf("A:%d:%s(%s)", c.cid, strings.TrimSuffix(v.Type().Name(), "Payload"), strings.Join(f, ","))
}

func parseAppCmd(pkg string, s string) (appCmd, error) {
	if !strings.HasPrefix(s, "A:") {
		return appCmd{}, fmt.Errorf("bad command token %q", s)
	}
	parts := strings.SplitN(s[2:], ":", 2)
	if len(parts) != 2 {
		return appCmd{}, fmt.Errorf("bad command token %q", s)
	}
	cid, err := strconv.ParseUint(parts[0], 10, 8)
	if err != nil {
		return appCmd{}, err
	}
	if parts[1] == "-" {
		return appCmd{cid: byte(cid)}, nil
	}
	i := strings.Index(parts[1], "(")
	if i < 0 || !strings.HasSuffix(parts[1], ")") {
		return appCmd{}, fmt.Errorf("bad payload %q", parts[1])
	}
	name, body := parts[1][:i], parts[1][i+1:len(parts[1])-1]
	t, ok := appTypes[pkg][name]
	if !ok {
		return appCmd{}, fmt.Errorf("package %s has no payload %s", pkg, name)
	}
	var toks []string
	if body != "" {
		toks = strings.Split(body, ",")
	}
	p := reflect.New(t)
	if err := unflatten(p.Elem(), &toks); err != nil {
		return appCmd{}, err
	}
	if len(toks) != 0 {
		return appCmd{}, fmt.Errorf("too many fields")
	}
	return appCmd{cid: byte(cid), payload: p.Interface().(appPayload)}, nil
}

func fmtAppCmds(cs []appCmd) string {
	t := []string{strconv.Itoa(len(cs))}
	for _, c := range cs {
		t = append(t, fmtAppCmd(c))
	}
	return strings.Join(t, " ")
}

func (r *tokReader) appPkg() (*appPkg, error) {
	s, err := r.next()
	if err != nil {
		return nil, err
	}
	p, ok := appPkgs[s]
	if !ok {
		return nil, fmt.Errorf("unknown package %q", s)
	}
	return p, nil
}

func (r *tokReader) appCmds(pkg string) ([]appCmd, error) {
	n, err := r.u64()
	if err != nil {
		return nil, err
	}
	var out []appCmd
	for i := uint64(0); i < n; i++ {
		s, err := r.next()
		if err != nil {
			return nil, err
		}
		c, err := parseAppCmd(pkg, s)
		if err != nil {
			return nil, err
		}
		out = append(out, c)
	}
	return out, nil
}

func init() {
	// appenc <pkg> <cmd>: Command.MarshalBinary and Command.Size
	opTable["appenc"] = func(r *tokReader) (string, error) {
		pk, err := r.appPkg()
		if err != nil {
			return "", err
		}
		s, err := r.next()
		if err != nil {
			return "", err
		}
		c, err := parseAppCmd(pk.name, s)
		if err != nil {
			return "", err
		}
		size := pk.sizeCmd(c)
		b, e := pk.encCmd(c)
		if e != nil {
			return fmt.Sprintf("ok %d ERR", size), nil
		}
		return fmt.Sprintf("ok %d %s", size, hx(b)), nil
	}
	// appdec <pkg> <uplink> <hex>: Command.UnmarshalBinary, then Size of what was decoded
	opTable["appdec"] = func(r *tokReader) (string, error) {
		pk, err := r.appPkg()
		if err != nil {
			return "", err
		}
		up, err := r.boolean()
		if err != nil {
			return "", err
		}
		b, err := r.hex()
		if err != nil {
			return "", err
		}
		c, e := pk.decCmd(up, b)
		if e != nil {
			return resERR, nil
		}
		return fmt.Sprintf("ok %s %d", fmtAppCmd(c), pk.sizeCmd(c)), nil
	}
	// appdecs <pkg> <uplink> <hex>: Commands.UnmarshalBinary
	opTable["appdecs"] = func(r *tokReader) (string, error) {
		pk, err := r.appPkg()
		if err != nil {
			return "", err
		}
		up, err := r.boolean()
		if err != nil {
			return "", err
		}
		b, err := r.hex()
		if err != nil {
			return "", err
		}
		cs, e := pk.decSeq(up, b)
		if e != nil {
			return resERR, nil
		}
		return okStr(fmtAppCmds(cs)), nil
	}
	// appseq <pkg> <uplink> <n> <cmd>...: Commands.MarshalBinary, then Commands.UnmarshalBinary of the bytes
	opTable["appseq"] = func(r *tokReader) (string, error) {
		pk, err := r.appPkg()
		if err != nil {
			return "", err
		}
		up, err := r.boolean()
		if err != nil {
			return "", err
		}
		cs, err := r.appCmds(pk.name)
		if err != nil {
			return "", err
		}
		b, e := pk.encSeq(cs)
		if e != nil {
			return resERR, nil
		}
		out, e := pk.decSeq(up, b)
		if e != nil {
			return okStr(hx(b) + " | " + resERR), nil
		}
		return okStr(hx(b) + " | " + fmtAppCmds(out)), nil
	}
	// mckeys <key> <addr>: the five derivations of keys.go with <key> as the input key
	opTable["mckeys"] = func(r *tokReader) (string, error) {
		k, err := r.key()
		if err != nil {
			return "", err
		}
		ab, err := r.hex()
		if err != nil {
			return "", err
		}
		if len(ab) != 4 {
			return "", fmt.Errorf("addr must be 4 bytes")
		}
		var a lw.DevAddr
		copy(a[:], ab)
		var out []string
		k1, e1 := multicastsetup.GetMcRootKeyForGenAppKey(k)
		k2, e2 := multicastsetup.GetMcRootKeyForAppKey(k)
		k3, e3 := multicastsetup.GetMcKEKey(k)
		k4, e4 := multicastsetup.GetMcAppSKey(k, a)
		k5, e5 := multicastsetup.GetMcNetSKey(k, a)
		for _, e := range []error{e1, e2, e3, e4, e5} {
			if e != nil {
				return resERR, nil
			}
		}
		for _, x := range []lw.AES128Key{k1, k2, k3, k4, k5} {
			out = append(out, hx(x[:]))
		}
		return okStr(strings.Join(out, " ")), nil
	}
}

// ---- dump: the four registries ----

func leanAppKind(name string) string {
	n := name
	switch {
	case name == "PackageVersionAns":
		return ".pkgVersionAns"
	case strings.HasPrefix(name, "DeviceAppTime"):
		n = "DevAppTime" + strings.TrimPrefix(name, "DeviceAppTime")
	}
	return "." + strings.ToLower(n[:1]) + n[1:]
}

func dumpAppRegistry() (*leanFile, error) {
	f := &leanFile{name: "AppRegistry.lean"}
	f.p("/- GENERATED by harness/ops_app.go from /repo (commandPayloadRegistry of the four applayer packages probed through GetCommandPayload for all 2 x 256 keys). Do not edit. -/\n")
	f.p("import LW.Model.App\nnamespace LW.Generated\nopen LW LW.App\n\n")
	f.p("def appRegistry : List (Pkg × Bool × Nat × AKind) := [\n")
	short := map[string]string{"clocksync": ".cs", "multicastsetup": ".mc", "fragmentation": ".fr", "firmwaremanagement": ".fw"}
	var lines []string
	for _, pn := range appPkgNames {
		es := append([]appRegEntry{}, appRegistry[pn]...)
		sort.SliceStable(es, func(i, j int) bool {
			if es[i].up != es[j].up {
				return !es[i].up
			}
			return es[i].cid < es[j].cid
		})
		for _, e := range es {
			lines = append(lines, fmt.Sprintf("  (%s, %v, %d, %s)", short[pn], e.up, e.cid, leanAppKind(e.name)))
		}
	}
	f.p("%s\n]\n\nend LW.Generated\n", strings.Join(lines, ",\n"))
	return f, nil
}

func init() { dumpers = append(dumpers, dumpAppRegistry) }
