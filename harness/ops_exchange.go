package main

// C05: the sender / receiver call sequence, executed step by step through the public API.
//
//   exchange <ver> <conf> <txdr> <txch> <fkey> <skey> <enckey> <appkey> <tamper> <frame...>
//
// tamper: 0 none; t < 2^40: kind t%8 (bit of the frame, of a key, FCnt upper half, ConfFCnt, TxDr, TxCh, MAC version) with argument t/8;
// t >= 2^40: the receiver validates for the opposite direction.
//
// result: ERR (the sender failed) or
//   ok <serialised hex> dec-ERR | notdata | val-ERR | rejected | accepted fopts-ERR | accepted frm-ERR | accepted <frame>

import (
	"strings"

	lw "github.com/brocaar/lorawan"
)

func flipKeyBit(k lw.AES128Key, bit uint64) lw.AES128Key {
	k[(bit/8)%16] ^= 1 << (bit % 8)
	return k
}

func init() {
	opTable["exchange"] = func(r *tokReader) (string, error) {
		ver, err := r.u64()
		if err != nil {
			return "", err
		}
		conf, err := r.u64()
		if err != nil {
			return "", err
		}
		txdr, err := r.u64()
		if err != nil {
			return "", err
		}
		txch, err := r.u64()
		if err != nil {
			return "", err
		}
		fkey, err := r.key()
		if err != nil {
			return "", err
		}
		skey, err := r.key()
		if err != nil {
			return "", err
		}
		enckey, err := r.key()
		if err != nil {
			return "", err
		}
		appkey, err := r.key()
		if err != nil {
			return "", err
		}
		tamper, err := r.u64()
		if err != nil {
			return "", err
		}
		p, err := parseFrame(r)
		if err != nil {
			return "", err
		}
		mp, ok := p.MACPayload.(*lw.MACPayload)
		if !ok {
			return resERR, nil
		}
		uplink := p.MHDR.MType == lw.UnconfirmedDataUp || p.MHDR.MType == lw.ConfirmedDataUp
		fcnt := mp.FHDR.FCnt
		frmKey := appkey
		if mp.FPort != nil && *mp.FPort == 0 {
			frmKey = enckey
		}
		// ---- sender
		if e := p.EncryptFRMPayload(frmKey); e != nil {
			return resERR, nil
		}
		if ver != 0 {
			if e := p.EncryptFOpts(enckey); e != nil {
				return resERR, nil
			}
		}
		if uplink {
			if e := p.SetUplinkDataMIC(lw.MACVersion(ver), uint32(conf), uint8(txdr), uint8(txch), fkey, skey); e != nil {
				return resERR, nil
			}
		} else {
			if e := p.SetDownlinkDataMIC(lw.MACVersion(ver), uint32(conf), skey); e != nil {
				return resERR, nil
			}
		}
		b, e := p.MarshalBinary()
		if e != nil {
			return resERR, nil
		}
		b = append([]byte{}, b...)
		// ---- tampering: one single-bit corruption or one parameter mismatch
		rver, rconf, rtxdr, rtxch, rfkey, rskey := ver, uint32(conf), uint8(txdr), uint8(txch), fkey, skey
		fcntHi := fcnt & 0xffff0000
		// tamper >= 2^40: no corruption, but the receiver takes the frame for the other direction (a device validating with the
		// downlink function a frame of uplink type, and the reverse)
		otherDir := tamper >= 1<<40
		if tamper != 0 && !otherDir {
			kind, arg := tamper%8, tamper/8
			switch kind {
			case 0:
				bit := arg % uint64(len(b)*8)
				b[bit/8] ^= 1 << (bit % 8)
			case 1:
				rfkey = flipKeyBit(rfkey, arg)
			case 2:
				rskey = flipKeyBit(rskey, arg)
			case 3:
				fcntHi ^= uint32(1+arg%65535) << 16
			case 4:
				rconf ^= uint32(1 + arg%65535)
			case 5:
				rtxdr ^= uint8(1 + arg%255)
			case 6:
				rtxch ^= uint8(1 + arg%255)
			case 7:
				rver ^= 1
			}
		}
		out := hx(b) + " "
		// ---- receiver
		var q lw.PHYPayload
		if e := q.UnmarshalBinary(b); e != nil {
			return okStr(out + "dec-ERR"), nil
		}
		qm, ok := q.MACPayload.(*lw.MACPayload)
		if !ok {
			return okStr(out + "notdata"), nil
		}
		qm.FHDR.FCnt = fcntHi | (qm.FHDR.FCnt & 0xffff)
		qUp := q.MHDR.MType == lw.UnconfirmedDataUp || q.MHDR.MType == lw.ConfirmedDataUp
		var valid bool
		if qUp != otherDir {
			valid, e = q.ValidateUplinkDataMIC(lw.MACVersion(rver), rconf, rtxdr, rtxch, rfkey, rskey)
		} else {
			valid, e = q.ValidateDownlinkDataMIC(lw.MACVersion(rver), rconf, rskey)
		}
		if e != nil {
			return okStr(out + "val-ERR"), nil
		}
		if !valid {
			return okStr(out + "rejected"), nil
		}
		if rver != 0 {
			e = q.DecryptFOpts(enckey)
		} else {
			e = q.DecodeFOptsToMACCommands()
		}
		if e != nil {
			return okStr(out + "accepted fopts-ERR"), nil
		}
		rk := appkey
		if qm.FPort != nil && *qm.FPort == 0 {
			rk = enckey
		}
		if e := q.DecryptFRMPayload(rk); e != nil {
			return okStr(out + "accepted frm-ERR"), nil
		}
		return okStr(out + "accepted " + fmtFrame(&q)), nil
	}
	_ = strings.Join
}
