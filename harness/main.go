package main

// lwharness — drives the real brocaar/lorawan code for the /verif checks.
//
//   lwharness gen <property> <tier> <seed>   generate ops for a property, run them, print "op => result"
//   lwharness exec                           read op lines on stdin (anything after " => " is ignored), run, print
//   lwharness dump <dir>                     write lean/LW/Generated/*.lean from the current source

import (
	"bufio"
	"fmt"
	"io/ioutil"
	"log"
	"os"
	"strconv"
	"strings"
	"time"
)

type Gen struct {
	r    *RNG
	tier string
	out  *bufio.Writer
	n    int
}

func (g *Gen) thorough() bool { return g.tier == "thorough" }

// scale returns q in the quick tier and t in the thorough tier.
func (g *Gen) scale(q, t int) int {
	if g.thorough() {
		return t
	}
	return q
}

// runOp executes op with a watchdog: a hang is reported and ends the process (a goroutine cannot be killed).
func runOp(op string) string {
	ch := make(chan string, 1)
	go func() { ch <- execOp(op) }()
	select {
	case r := <-ch:
		return r
	case <-time.After(10 * time.Second):
		return "HANG"
	}
}

func (g *Gen) add(op string) {
	res := runOp(op)
	fmt.Fprintf(g.out, "%s => %s\n", op, res)
	g.n++
	if res == "HANG" {
		g.out.Flush()
		os.Exit(3)
	}
}

func (g *Gen) addf(format string, a ...interface{}) { g.add(fmt.Sprintf(format, a...)) }

var generators = map[string]func(g *Gen){}

func main() {
	log.SetOutput(ioutil.Discard) // the stream decoder logs a warning per malformed command
	if len(os.Args) < 2 {
		fmt.Fprintln(os.Stderr, "usage: lwharness gen|exec|dump ...")
		os.Exit(2)
	}
	w := bufio.NewWriterSize(os.Stdout, 1<<20)
	defer w.Flush()
	switch os.Args[1] {
	case "gen":
		if len(os.Args) != 5 {
			fmt.Fprintln(os.Stderr, "usage: lwharness gen <property> <tier> <seed>")
			os.Exit(2)
		}
		seed, _ := strconv.ParseUint(os.Args[4], 10, 64)
		f, ok := generators[os.Args[2]]
		if !ok {
			fmt.Fprintln(os.Stderr, "no generator for", os.Args[2])
			os.Exit(2)
		}
		g := &Gen{r: NewRNG(seed), tier: os.Args[3], out: w}
		f(g)
	case "exec":
		sc := bufio.NewScanner(os.Stdin)
		sc.Buffer(make([]byte, 1<<20), 1<<26)
		for sc.Scan() {
			line := sc.Text()
			if i := strings.Index(line, " => "); i >= 0 {
				line = line[:i]
			}
			line = strings.TrimSpace(line)
			if line == "" || strings.HasPrefix(line, "#") {
				continue
			}
			res := runOp(line)
			fmt.Fprintf(w, "%s => %s\n", line, res)
			if res == "HANG" {
				w.Flush()
				os.Exit(3)
			}
		}
	case "dump":
		if len(os.Args) != 3 {
			fmt.Fprintln(os.Stderr, "usage: lwharness dump <dir>")
			os.Exit(2)
		}
		if err := dumpAll(os.Args[2]); err != nil {
			fmt.Fprintln(os.Stderr, "dump:", err)
			os.Exit(1)
		}
	default:
		fmt.Fprintln(os.Stderr, "unknown mode", os.Args[1])
		os.Exit(2)
	}
}
