package main

// Op generators for C01..C09 (frames, MAC commands, MICs, encryption).

import (
	"fmt"
	"strconv"
	"strings"
)

func init() {
	generators["C01"] = genC01
	generators["C02"] = genC02
	generators["C03"] = genC03
	generators["C04"] = genC04
	generators["C05"] = genC05
	generators["C06"] = genC06
	generators["C07"] = genC07
	generators["C08"] = genC08
}

// ---- C06 / C07: MAC command payloads

func (g *Gen) macPayloadSweep(withInto bool) {
	for _, name := range payloadNames {
		if name == "ProprietaryMACCommandPayload" {
			continue
		}
		n := g.scale(150, 3000)
		for i := 0; i < n; i++ {
			op := "macenc " + g.genPayloadTok(name, i%3)
			g.add(op)
			if i%5 == 0 {
				if res := execOp(op); strings.HasPrefix(res, "ok x") {
					g.addf("macdec %s %s", name, res[3:])
				}
			}
		}
		// every boundary value of every field once, the other fields inside the specification
		ds := payloadDomains[name]
		for j, d := range ds {
			for _, v := range fieldEdges(d) {
				parts := make([]string, len(ds))
				for i, e := range ds {
					parts[i] = strconv.FormatInt(g.genField(e, 0), 10)
				}
				parts[j] = strconv.FormatInt(v, 10)
				op := "macenc " + name + "(" + strings.Join(parts, ",") + ")"
				g.add(op)
				// ... and what the encoder made of it through the decoder: the decoder's own thresholds (frequency codes around
				// 12 000 000, the sign bit of the margin, ...) are met exactly by the encodings of the boundary values
				if res := execOp(op); strings.HasPrefix(res, "ok x") {
					g.addf("macdec %s %s", name, res[3:])
				}
			}
		}
	}
	// decoders: exhaustive for 1-byte payloads, all values of 2-byte payloads in the thorough tier
	for _, e := range builtinRegistry() {
		switch e.size {
		case 1:
			for b := 0; b < 256; b++ {
				g.addf("macdec %s x%02x", e.name, b)
			}
		case 2:
			if g.thorough() {
				for b := 0; b < 65536; b++ {
					g.addf("macdec %s x%04x", e.name, b)
				}
			} else {
				for b := 0; b < 256; b++ {
					g.addf("macdec %s x%02x%02x", e.name, b, g.r.Byte())
					g.addf("macdec %s x%02x%02x", e.name, g.r.Byte(), b)
				}
			}
		default:
			n := g.scale(400, 20000)
			for i := 0; i < n; i++ {
				b := g.r.Bytes(e.size)
				if i%4 == 0 {
					for j := range b {
						b[j] = byte(g.r.Pick(0, 0xff, 0x80, 0x7f, 1))
					}
				}
				g.addf("macdec %s %s", e.name, hx(b))
			}
		}
		// wrong lengths
		for _, l := range []int{0, e.size - 1, e.size + 1, e.size + 7} {
			if l >= 0 {
				g.addf("macdec %s %s", e.name, hx(g.r.Bytes(l)))
			}
		}
		if withInto {
			for i := 0; i < g.scale(20, 200); i++ {
				g.addf("macdecinto %s %s", g.genPayloadTok(e.name, 1), hx(g.r.Bytes(e.size)))
			}
		}
	}
	for _, up := range []int{0, 1} {
		for cid := 0; cid < 256; cid++ {
			g.addf("getsize %d %d", up, cid)
		}
	}
}

func genC06(g *Gen) {
	g.macPayloadSweep(false)
	// headers: all MHDR / FCtrl bytes through the frame decoder, both directions
	for b := 0; b < 256; b++ {
		g.addf("phydec x%02x0102030400050607", b)
		g.addf("phydec x4001020304%02x0500aabbccdd", b&0xf0)
		g.addf("phydec x6001020304%02x0500aabbccdd", b&0xf0)
	}
	// every FCtrl byte with as many FOpts bytes as its length nibble says, without / with FPort and FRMPayload, both directions
	for b := 0; b < 256; b++ {
		for _, mh := range []int{0x40, 0x60, 0x80, 0xa0} {
			fo := hx(g.r.Bytes(b & 0x0f))[1:]
			g.addf("phydec x%02x01020304%02x0500%s%s", mh, b, fo, hx(g.r.Bytes(4))[1:])
			g.addf("phydec x%02x01020304%02x0500%s%02x%s%s", mh, b, fo, 1+g.r.Intn(255), hx(g.r.Bytes(g.r.Intn(20)))[1:], hx(g.r.Bytes(4))[1:])
		}
	}
	reg := builtinRegistry()
	for i := 0; i < g.scale(1500, 50000); i++ {
		f := g.genAnyFrame(reg, true)
		g.add("phyenc " + f)
		// and the frames the encoder makes, decoded: every frame kind, join-accept / rejoin layouts included
		if b := encodeFrameTok(f); b != nil {
			g.add("phydec " + hx(b))
		}
	}
	for i := 0; i < g.scale(300, 5000); i++ {
		g.add("encja " + g.key() + " " + g.genJoinFrame("JA", true))
		// ... and the join-accept payload (CFList included) decoded from the bytes its encoder produced
		g.add("jart " + g.genJoinFrame("JA", true))
	}
}

func (g *Gen) streamOps(reg []regEntry, n int) {
	for i := 0; i < n; i++ {
		up := g.r.Bool()
		cmds := g.genCmds(reg, up, g.r.Pick(15, 242, 60), 0)
		var enc []byte
		for _, c := range cmds {
			res := execOp("cmdenc " + c)
			if strings.HasPrefix(res, "ok x") {
				b, _ := unhx(res[3:])
				enc = append(enc, b...)
			}
		}
		for _, c := range cmds {
			if g.r.Chance(1, 4) {
				g.add("cmdenc " + c)
			}
		}
		g.addf("streamrt %d %s", b2i(up), itemsTok(cmds))
		g.addf("stream %d %s", b2i(up), hx(enc))
		if g.r.Chance(1, 3) {
			g.addf("stream %d %s", b2i(up), hx(g.mutateBytes(enc)))
		}
		if g.r.Chance(1, 6) {
			g.addf("stream %d %s", b2i(up), hx(g.r.Bytes(g.r.Intn(40))))
		}
	}
}

func genC07(g *Gen) {
	g.macPayloadSweep(false)
	reg := builtinRegistry()
	g.streamOps(reg, g.scale(600, 20000))
	// histories of proprietary registrations
	for h := 0; h < g.scale(30, 400); h++ {
		up := g.r.Bool()
		cid := 128 + g.r.Intn(128)
		if g.r.Chance(1, 10) {
			cid = g.r.Intn(128)
		}
		if h < 8 { // the ends of the proprietary range and their neighbours
			cid = []int{127, 128, 255, 256, 129, 254, 0, 300}[h]
		}
		size := g.r.Intn(6)
		if g.r.Chance(1, 10) {
			size = g.r.Pick(0, 15, 16, 40)
		}
		res := execOp(fmt.Sprintf("register %d %d %d", b2i(up), cid, size))
		g.addf("register %d %d %d", b2i(up), cid, size)
		if res == "ok" && size != 0 {
			reg = append(filterReg(reg, up, cid), regEntry{up, cid, "ProprietaryMACCommandPayload", size})
		}
		g.addf("getsize %d %d", b2i(up), cid)
		g.addf("getsize %d %d", b2i(!up), cid)
		g.streamOps(reg, g.scale(8, 40))
		// the proprietary CID in both directions with exactly `size` bytes following
		body := g.r.Bytes(size + 2)
		if cid <= 255 {
			g.addf("stream %d x%02x%s", b2i(up), cid, hx(body)[1:])
			g.addf("stream %d x%02x%s", b2i(!up), cid, hx(body)[1:])
		}
	}
}

func filterReg(reg []regEntry, up bool, cid int) []regEntry {
	var out []regEntry
	for _, e := range reg {
		if !(e.up == up && e.cid == cid) {
			out = append(out, e)
		}
	}
	return out
}

// ---- C01 / C08: frames

func genC01(g *Gen) {
	reg := builtinRegistry()
	n := g.scale(6000, 300000)
	for i := 0; i < n; i++ {
		f := g.genAnyFrame(reg, i%5 != 0)
		g.add("phyrt " + f)
		if b := encodeFrameTok(f); b != nil {
			g.add("phydec " + hx(b))
		}
		// text form, also of frames the encoder refuses
		if i%10 == 0 {
			g.add("phytextenc " + f)
		}
		if i%4 == 1 {
			g.add("phytextrt " + f)
		}
	}
	// the decode-to-commands entry points on frames whose FOpts / FRMPayload are not one opaque element
	for i := 0; i < g.scale(300, 5000); i++ {
		f := g.genDataFrame(reg, frameOpts{mtype: -1, valid: false, encrypted: i%2 == 0})
		g.add("phydecodefopts " + f)
		g.add("phydecodefrm " + f)
	}
	// decode FOpts / FRMPayload as commands
	for i := 0; i < g.scale(1500, 50000); i++ {
		f := g.genDataFrame(reg, frameOpts{mtype: -1, valid: true})
		if b := encodeFrameTok(f); b != nil {
			res := execOp("phydec " + hx(b))
			if strings.HasPrefix(res, "ok ") {
				g.add("phydecodefopts " + res[3:])
				g.add("phydecodefrm " + res[3:])
			}
		}
	}
	// join-accept through encrypt / decrypt
	for i := 0; i < g.scale(800, 20000); i++ {
		k := g.key()
		f := g.genJoinFrame("JA", i%5 != 0)
		g.add("jart " + f)
		g.add("encja " + k + " " + f)
		res := execOp("encja " + k + " " + f)
		if strings.HasPrefix(res, "ok ") {
			g.add("decja " + k + " " + res[3:])
		}
	}
}

func genC08(g *Gen) {
	reg := builtinRegistry()
	dec := func(b []byte) {
		g.add("phycanon " + hx(b))
	}
	// all lengths 0..256 of uniform bytes for every MType
	for l := 0; l <= 256; l++ {
		for mt := 0; mt < 8; mt++ {
			b := g.r.Bytes(l)
			if l > 0 {
				b[0] = byte(mt<<5) | (b[0] & 0x03)
				if g.r.Chance(1, 8) {
					b[0] |= byte(g.r.Intn(8)) << 2
				}
			}
			dec(b)
		}
	}
	n := g.scale(5000, 400000)
	for i := 0; i < n; i++ {
		switch i % 4 {
		case 0: // uniform bytes at the lengths the decoders single out
			l := g.r.Pick(5, 8, 12, 13, 14, 17, 19, 23, 24, 33, 20, 10)
			if g.r.Bool() {
				l = g.r.Intn(64)
			}
			b := g.r.Bytes(l)
			if l > 0 {
				b[0] = byte(g.r.Intn(8)<<5) | byte(g.r.Intn(4))
			}
			dec(b)
		default: // structure-aware mutation of a valid frame
			f := g.genAnyFrame(reg, true)
			if b := encodeFrameTok(f); b != nil {
				if i%4 == 1 {
					dec(b)
				} else {
					dec(g.mutateBytes(b))
				}
			}
		}
	}
	// FOptsLen x FPort x payload-length grid (the checks the encoder and decoder must mirror)
	for fol := 0; fol < 16; fol++ {
		for extra := 0; extra < 4; extra++ {
			for _, port := range []int{0, 1, 255} {
				for _, mt := range []int{2, 3, 4, 5} {
					b := []byte{byte(mt << 5), 1, 2, 3, 4, byte(0x80 | fol), 9, 0}
					b = append(b, g.r.Bytes(fol)...)
					if extra > 0 {
						b = append(b, byte(port))
						b = append(b, g.r.Bytes(extra-1)...)
					}
					b = append(b, g.r.Bytes(4)...)
					dec(b)
				}
			}
		}
	}
}

// ---- C02: data MICs

func genC02(g *Gen) {
	reg := builtinRegistry()
	n := g.scale(2500, 100000)
	for i := 0; i < n; i++ {
		up := i%2 == 0
		mt := g.r.Pick(3, 5)
		if up {
			mt = g.r.Pick(2, 4)
		}
		f := g.genDataFrame(reg, frameOpts{mtype: mt, valid: i%7 != 0, encrypted: i%3 == 0})
		ver := g.r.Intn(2)
		conf := g.r.U32Edge()
		if up {
			args := fmt.Sprintf("%d %d %d %d %s %s", ver, conf, g.r.Intn(256), g.r.Intn(256), g.key(), g.key())
			g.add("micup " + args + " " + f)
			res := execOp("micup " + args + " " + f)
			if strings.HasPrefix(res, "ok x") {
				// validate the frame carrying that MIC, and a frame carrying a different one
				withMIC := replaceMIC(f, res[3:])
				g.add("valup " + args + " " + withMIC)
				g.add("valup " + args + " " + f)
				g.add("valup " + args + " " + replaceMIC(f, nearMIC(res[3:], i/2)))
				keys := strings.Fields(args)
				g.add("valupf " + keys[4] + " " + withMIC)
				// the receiver takes the frame for the other direction (same key, as in LoRaWAN 1.0): the specification's MIC differs
				// in its direction byte, so validation must fail
				g.add(fmt.Sprintf("valdown %d %d %s ", ver, conf, keys[4]) + withMIC)
				g.add(fmt.Sprintf("valdown %d %d %s ", ver, conf, keys[5]) + withMIC)
			} else { // the MIC cannot be computed (frame not serialisable): validation must report the error, not false
				g.add("valup " + args + " " + f)
				g.add("valupf " + strings.Fields(args)[4] + " " + f)
			}
		} else {
			args := fmt.Sprintf("%d %d %s", ver, conf, g.key())
			g.add("micdown " + args + " " + f)
			res := execOp("micdown " + args + " " + f)
			if strings.HasPrefix(res, "ok x") {
				g.add("valdown " + args + " " + replaceMIC(f, res[3:]))
				g.add("valdown " + args + " " + f)
				g.add("valdown " + args + " " + replaceMIC(f, nearMIC(res[3:], i/2)))
				k := strings.Fields(args)[2]
				g.add(fmt.Sprintf("valup %d %d %d %d %s %s ", ver, conf, g.r.Intn(256), g.r.Intn(256), k, k) + replaceMIC(f, res[3:]))
			} else {
				g.add("valdown " + args + " " + f)
			}
		}
	}
	// wrong payload kinds
	for i := 0; i < 40; i++ {
		g.add(fmt.Sprintf("micup 1 0 0 0 %s %s ", g.key(), g.key()) + g.genJoinFrame([]string{"JR", "JA", "RJ1", "PROP"}[i%4], true))
		g.add(fmt.Sprintf("micdown 1 0 %s ", g.key()) + g.genJoinFrame([]string{"JR", "JA", "RJ1", "PROP"}[i%4], true))
		g.add(fmt.Sprintf("valup %d 0 0 0 %s %s ", i%2, g.key(), g.key()) + g.genJoinFrame([]string{"JR", "JA", "RJ1", "PROP"}[i%4], true))
		g.add(fmt.Sprintf("valupf %s ", g.key()) + g.genJoinFrame([]string{"JR", "JA", "RJ1", "PROP"}[i%4], true))
		g.add(fmt.Sprintf("valdown %d 0 %s ", i%2, g.key()) + g.genJoinFrame([]string{"JR", "JA", "RJ1", "PROP"}[i%4], true))
	}
}

// replaceMIC swaps the MIC token (3rd token) of a frame token string.
func replaceMIC(frame, mic string) string {
	t := strings.Fields(frame)
	t[2] = mic
	return strings.Join(t, " ")
}

// nearMIC flips one bit (number i mod 32) of a 4-byte MIC token: a MIC that is right in all but one bit must be refused.
func nearMIC(mic string, i int) string {
	b, err := unhx(mic)
	if err != nil || len(b) != 4 {
		return mic
	}
	b[(i%32)/8] ^= 1 << uint(i%8)
	return hx(b)
}

// ---- C03: encryption

func genC03(g *Gen) {
	reg := builtinRegistry()
	// every payload length 0..255 (1..16 keystream blocks)
	reps := g.scale(3, 40)
	for l := 0; l <= 255; l++ {
		for k := 0; k < reps; k++ {
			g.addf("encfrm %s %d %d %d %s", g.key(), g.r.Intn(2), g.r.U32Edge(), g.r.U32Edge(), hx(g.r.Bytes(l)))
		}
	}
	for l := 0; l <= 18; l++ {
		for k := 0; k < g.scale(20, 400); k++ {
			g.addf("encfopts %s %d %d %d %d %s", g.key(), g.r.Intn(2), g.r.Intn(2), g.r.U32Edge(), g.r.U32Edge(), hx(g.r.Bytes(l)))
		}
	}
	n := g.scale(1500, 60000)
	for i := 0; i < n; i++ {
		f := g.genDataFrame(reg, frameOpts{mtype: -1, valid: i%6 != 0, encrypted: i%2 == 0})
		k := g.key()
		switch i % 4 {
		case 0:
			g.add("phyencfopts " + k + " " + f)
		case 1:
			g.add("phydecfopts " + k + " " + f)
		case 2:
			g.add("phyencfrm " + k + " " + f)
		default:
			g.add("phydecfrm " + k + " " + f)
		}
		// involution through the PHY methods
		if i%4 == 0 {
			res := execOp("phyencfopts " + k + " " + f)
			if strings.HasPrefix(res, "ok ") {
				g.add("phydecfopts " + k + " " + res[3:])
			}
		}
		if i%4 == 2 {
			res := execOp("phyencfrm " + k + " " + f)
			if strings.HasPrefix(res, "ok ") {
				g.add("phydecfrm " + k + " " + res[3:])
			}
		}
	}
	for i := 0; i < 40; i++ {
		k := g.key()
		f := g.genJoinFrame([]string{"JR", "JA", "RJ1", "PROP"}[i%4], true)
		g.add("phyencfopts " + k + " " + f)
		g.add("phydecfopts " + k + " " + f)
		g.add("phyencfrm " + k + " " + f)
		g.add("phydecfrm " + k + " " + f)
	}
	// FRMPayload without an FPort (a frame the encoder refuses): the encryption methods still transform it, or report an error;
	// they never answer success having done nothing
	for _, n := range []int{1, 5, 15, 16, 17, 32, 64} {
		for mt := 2; mt <= 5; mt++ {
			f := fmt.Sprintf("%d 0 %s MAC %d 00000 %d 0 - 1 D:%s", mt, hx(g.r.Bytes(4)), g.r.U32(), g.r.U32Edge(), hx(g.r.Bytes(n)))
			k := g.key()
			g.add("phyencfrm " + k + " " + f)
			g.add("phydecfrm " + k + " " + f)
		}
	}
}

// ---- C04: join MICs and join-accept encryption

func genC04(g *Gen) {
	n := g.scale(1500, 50000)
	for i := 0; i < n; i++ {
		k := g.key()
		switch i % 3 {
		case 0:
			f := g.genJoinFrame([]string{"JR", "RJ02", "RJ1"}[g.r.Intn(3)], i%9 != 0)
			g.add("micjoin " + k + " " + f)
			res := execOp("micjoin " + k + " " + f)
			if strings.HasPrefix(res, "ok x") {
				g.add("valjoin " + k + " " + replaceMIC(f, res[3:]))
				g.add("valjoin " + k + " " + f)
				g.add("valjoin " + k + " " + replaceMIC(f, nearMIC(res[3:], i/3)))
			}
		default:
			f := g.genJoinFrame("JA", i%10 != 0)
			args := fmt.Sprintf("%d %s %d %s", g.r.Pick(255, 0, 1, 2), g.u64dec(), g.r.U16(), k)
			g.add("micja " + args + " " + f)
			res := execOp("micja " + args + " " + f)
			if strings.HasPrefix(res, "ok x") {
				fm := replaceMIC(f, res[3:])
				g.add("valja " + args + " " + fm)
				g.add("valja " + args + " " + replaceMIC(f, nearMIC(res[3:], i)))
				g.add("encja " + k + " " + fm)
				res2 := execOp("encja " + k + " " + fm)
				if strings.HasPrefix(res2, "ok ") {
					g.add("decja " + k + " " + res2[3:])
					if i%6 == 1 {
						g.add("decja " + g.key() + " " + res2[3:])
					}
				}
			}
		}
	}
	for i := 0; i < 20; i++ {
		g.add("micja 255 1 1 " + g.key() + " " + g.genJoinFrame([]string{"JR", "RJ1", "PROP"}[i%3], true))
		g.add("encja " + g.key() + " " + g.genJoinFrame([]string{"JR", "RJ1", "PROP"}[i%3], true))
		g.add("decja " + g.key() + " 1 0 " + hx(g.r.Bytes(4)) + " DATA " + hx(g.r.Bytes(g.r.Pick(0, 1, 12, 28, 11, 27, 44, 60))))
		// validation on a payload of the wrong kind reports the error, not false
		g.add("valjoin " + g.key() + " " + g.genJoinFrame([]string{"JA", "PROP"}[i%2], true))
		g.add("micjoin " + g.key() + " " + g.genJoinFrame([]string{"JA", "PROP"}[i%2], true))
		g.add("valja 255 1 1 " + g.key() + " " + g.genJoinFrame([]string{"JR", "RJ1", "PROP"}[i%3], true))
	}
}

// ---- C05: end-to-end exchange (composite op, executed step by step through the public API)

func genC05(g *Gen) {
	reg := builtinRegistry()
	// proprietary commands registered for one direction each (a history: the register ops are part of every replay); the frames
	// generated below carry them in FOpts and on port 0 next to the built-in commands
	for _, e := range []struct {
		up        bool
		cid, size int
	}{{false, 0x80, 3}, {true, 0x81, 2}, {false, 0x90, 1}, {true, 0xa0, 4}} {
		res := execOp(fmt.Sprintf("register %d %d %d", b2i(e.up), e.cid, e.size))
		g.addf("register %d %d %d", b2i(e.up), e.cid, e.size)
		if res == "ok" {
			reg = append(filterReg(reg, e.up, e.cid), regEntry{e.up, e.cid, "ProprietaryMACCommandPayload", e.size})
		}
	}
	n := g.scale(1200, 40000)
	for i := 0; i < n; i++ {
		up := i%2 == 0
		mt := g.r.Pick(3, 5)
		if up {
			mt = g.r.Pick(2, 4)
		}
		f := g.genDataFrame(reg, frameOpts{mtype: mt, valid: true})
		ver := g.r.Intn(2)
		args := fmt.Sprintf("%d %d %d %d %s %s %s %s", ver, g.r.U32Edge(), g.r.Intn(256), g.r.Intn(256), g.key(), g.key(), g.key(), g.key())
		g.add("exchange " + args + " 0 " + f)
		// tampering: one single-bit corruption / one parameter mismatch per extra op
		for k := 0; k < g.scale(2, 6); k++ {
			g.add("exchange " + args + " " + strconv.Itoa(1+g.r.Intn(1<<20)) + " " + f)
		}
		// the receiver takes the frame for the other direction: with distinct keys, and with one key for both directions (LoRaWAN 1.0),
		// where only the direction byte of the MIC block tells the two apart
		if i%4 < 2 {
			k := g.key()
			same := fmt.Sprintf("%d %d %d %d %s %s %s %s", i%4, g.r.U32Edge(), g.r.Intn(256), g.r.Intn(256), k, k, g.key(), g.key())
			g.add("exchange " + same + " 1099511627776 " + f)
			g.add("exchange " + args + " 1099511627776 " + f)
		}
	}
}
