package main

// C17: backend interface types — Frequency / Percentage (float JSON), HEXBytes, ISO8601Time, key envelopes and
// the JSON round trip of the payload structs.

import (
	"bytes"
	"encoding/json"
	"fmt"
	"math"
	"reflect"
	"strconv"
	"strings"
	"time"
	"unicode/utf8"

	lw "github.com/brocaar/lorawan"
	"github.com/brocaar/lorawan/backend"
)

// floatBitsOfJSON parses the JSON number the marshaler produced back to binary64 (strconv round-trips exactly).
func floatBitsOfJSON(b []byte) (uint64, error) {
	f, err := strconv.ParseFloat(string(b), 64)
	if err != nil {
		return 0, err
	}
	return math.Float64bits(f), nil
}

// hugeAfterScale reports whether text*scale leaves the int64 range (the Go float->int conversion is then
// implementation-defined and outside the property).
func hugeAfterScale(text string, scale float64) bool {
	f, err := strconv.ParseFloat(text, 64)
	if err != nil {
		return false
	}
	y := math.Round(f * scale)
	return math.IsNaN(y) || math.IsInf(y, 0) || y >= 9.2e18 || y <= -9.2e18
}

func init() {
	opTable["freqenc"] = func(r *tokReader) (string, error) {
		v, err := r.i64()
		if err != nil {
			return "", err
		}
		b, e := json.Marshal(backend.Frequency(v))
		if e != nil {
			return resERR, nil
		}
		bits, e := floatBitsOfJSON(b)
		if e != nil {
			return resERR, nil
		}
		return okStr(strconv.FormatUint(bits, 10)), nil
	}
	opTable["pctenc"] = func(r *tokReader) (string, error) {
		v, err := r.i64()
		if err != nil {
			return "", err
		}
		b, e := json.Marshal(backend.Percentage(v))
		if e != nil {
			return resERR, nil
		}
		bits, e := floatBitsOfJSON(b)
		if e != nil {
			return resERR, nil
		}
		return okStr(strconv.FormatUint(bits, 10)), nil
	}
	// freqdec / pctdec x<hex of the JSON text>
	opTable["freqdec"] = func(r *tokReader) (string, error) {
		t, err := r.hex()
		if err != nil {
			return "", err
		}
		var f backend.Frequency
		if e := json.Unmarshal(t, &f); e != nil {
			return resERR, nil
		}
		if hugeAfterScale(strings.TrimSpace(string(t)), 1000000) {
			return okStr("huge"), nil
		}
		return okStr(strconv.FormatInt(int64(f), 10)), nil
	}
	opTable["pctdec"] = func(r *tokReader) (string, error) {
		t, err := r.hex()
		if err != nil {
			return "", err
		}
		var f backend.Percentage
		if e := json.Unmarshal(t, &f); e != nil {
			return resERR, nil
		}
		if hugeAfterScale(strings.TrimSpace(string(t)), 100) {
			return okStr("huge"), nil
		}
		return okStr(strconv.FormatInt(int64(f), 10)), nil
	}
	opTable["freqrt"] = func(r *tokReader) (string, error) {
		v, err := r.i64()
		if err != nil {
			return "", err
		}
		b, e := json.Marshal(backend.Frequency(v))
		if e != nil {
			return resERR, nil
		}
		var f backend.Frequency
		if e := json.Unmarshal(b, &f); e != nil {
			return resERR, nil
		}
		return okStr(strconv.FormatInt(int64(f), 10)), nil
	}
	opTable["pctrt"] = func(r *tokReader) (string, error) {
		v, err := r.i64()
		if err != nil {
			return "", err
		}
		b, e := json.Marshal(backend.Percentage(v))
		if e != nil {
			return resERR, nil
		}
		var f backend.Percentage
		if e := json.Unmarshal(b, &f); e != nil {
			return resERR, nil
		}
		return okStr(strconv.FormatInt(int64(f), 10)), nil
	}
	// hexenc x<bytes> -> text ; hexdec x<text bytes> -> bytes
	opTable["hexenc"] = func(r *tokReader) (string, error) {
		b, err := r.hex()
		if err != nil {
			return "", err
		}
		t, e := backend.HEXBytes(b).MarshalText()
		if e != nil {
			return resERR, nil
		}
		return okStr(hx(t)), nil
	}
	opTable["hexdec"] = func(r *tokReader) (string, error) {
		t, err := r.hex()
		if err != nil {
			return "", err
		}
		var h backend.HEXBytes
		if e := h.UnmarshalText(t); e != nil {
			return resERR, nil
		}
		return okStr(hx(h)), nil
	}
	// timeenc <unix sec> <nsec> <offset minutes> -> text
	opTable["timeenc"] = func(r *tokReader) (string, error) {
		s, err := r.i64()
		if err != nil {
			return "", err
		}
		ns, err := r.i64()
		if err != nil {
			return "", err
		}
		off, err := r.i64()
		if err != nil {
			return "", err
		}
		t := time.Unix(s, ns).In(time.FixedZone("", int(off)*60))
		b, e := backend.ISO8601Time(t).MarshalText()
		if e != nil {
			return resERR, nil
		}
		return okStr(hx(b)), nil
	}
	// timedec x<text> -> unix sec, nsec
	opTable["timedec"] = func(r *tokReader) (string, error) {
		b, err := r.hex()
		if err != nil {
			return "", err
		}
		var t backend.ISO8601Time
		if e := t.UnmarshalText(b); e != nil {
			return resERR, nil
		}
		tt := time.Time(t)
		return okStr(fmt.Sprintf("%d %d", tt.Unix(), tt.Nanosecond())), nil
	}
	// timert <unix sec> <nsec> <offset minutes> -> unix sec after marshal + unmarshal
	opTable["timert"] = func(r *tokReader) (string, error) {
		s, err := r.i64()
		if err != nil {
			return "", err
		}
		ns, err := r.i64()
		if err != nil {
			return "", err
		}
		off, err := r.i64()
		if err != nil {
			return "", err
		}
		t := time.Unix(s, ns).In(time.FixedZone("", int(off)*60))
		b, e := backend.ISO8601Time(t).MarshalText()
		if e != nil {
			return resERR, nil
		}
		var u backend.ISO8601Time
		if e := u.UnmarshalText(b); e != nil {
			return okStr(hx(b) + " ERR"), nil
		}
		return okStr(fmt.Sprintf("%s %d", hx(b), time.Time(u).Unix())), nil
	}
	// kwrap <label 0|1> x<kek> x<key16> -> label-present, AESKey
	opTable["kwrap"] = func(r *tokReader) (string, error) {
		lab, err := r.boolean()
		if err != nil {
			return "", err
		}
		kek, err := r.hex()
		if err != nil {
			return "", err
		}
		k, err := r.key()
		if err != nil {
			return "", err
		}
		label := ""
		if lab {
			label = "kek-1"
		}
		env, e := backend.NewKeyEnvelope(label, kek, k)
		if e != nil {
			return resERR, nil
		}
		return okStr(fmt.Sprintf("%d %s", b2i(env.KEKLabel != ""), hx(env.AESKey))), nil
	}
	// kunwrap x<kek> x<aeskey>
	opTable["kunwrap"] = func(r *tokReader) (string, error) {
		kek, err := r.hex()
		if err != nil {
			return "", err
		}
		ct, err := r.hex()
		if err != nil {
			return "", err
		}
		k, e := backend.KeyEnvelope{KEKLabel: "kek-1", AESKey: ct}.Unwrap(kek)
		if e != nil {
			return resERR, nil
		}
		return okStr(hx(k[:])), nil
	}
	// payloadrt <type index> <seed>: fill a payload struct with in-domain values, json.Marshal, json.Unmarshal into a
	// fresh value, compare (times to one second, nil and empty byte strings / slices identified)
	opTable["payloadrt"] = func(r *tokReader) (string, error) {
		ti, err := r.u64()
		if err != nil {
			return "", err
		}
		seed, err := r.u64()
		if err != nil {
			return "", err
		}
		if int(ti) >= len(backendPayloadTypes) {
			return "", fmt.Errorf("type index")
		}
		t := backendPayloadTypes[ti]
		rng := NewRNG(seed)
		v := reflect.New(t)
		fillBackend(rng, v.Elem(), 0)
		b, e := json.Marshal(v.Interface())
		if e != nil {
			return okStr("MARSHAL-ERR " + t.Name()), nil
		}
		w := reflect.New(t)
		if e := json.Unmarshal(b, w.Interface()); e != nil {
			return okStr("UNMARSHAL-ERR " + t.Name()), nil
		}
		if d := diffBackend(v.Elem(), w.Elem(), t.Name()); d != "" {
			return okStr("DIFF " + d), nil
		}
		// and the encoding is stable
		b2, e := json.Marshal(w.Interface())
		if e != nil || !bytes.Equal(b, b2) {
			return okStr("DIFF re-encoding"), nil
		}
		return okStr("same"), nil
	}
}

var backendPayloadTypes = []reflect.Type{
	reflect.TypeOf(backend.JoinReqPayload{}), reflect.TypeOf(backend.JoinAnsPayload{}), reflect.TypeOf(backend.RejoinReqPayload{}),
	reflect.TypeOf(backend.RejoinAnsPayload{}), reflect.TypeOf(backend.AppSKeyReqPayload{}), reflect.TypeOf(backend.AppSKeyAnsPayload{}),
	reflect.TypeOf(backend.PRStartReqPayload{}), reflect.TypeOf(backend.PRStartAnsPayload{}), reflect.TypeOf(backend.PRStopReqPayload{}),
	reflect.TypeOf(backend.PRStopAnsPayload{}), reflect.TypeOf(backend.HRStartReqPayload{}), reflect.TypeOf(backend.HRStartAnsPayload{}),
	reflect.TypeOf(backend.HRStopReqPayload{}), reflect.TypeOf(backend.HRStopAnsPayload{}), reflect.TypeOf(backend.HomeNSReqPayload{}),
	reflect.TypeOf(backend.HomeNSAnsPayload{}), reflect.TypeOf(backend.ProfileReqPayload{}), reflect.TypeOf(backend.ProfileAnsPayload{}),
	reflect.TypeOf(backend.XmitDataReqPayload{}), reflect.TypeOf(backend.XmitDataAnsPayload{}),
	reflect.TypeOf(backend.ServiceProfile{}), reflect.TypeOf(backend.DeviceProfile{}), reflect.TypeOf(backend.RoutingProfile{}),
}

var (
	tHEX  = reflect.TypeOf(backend.HEXBytes{})
	tTime = reflect.TypeOf(backend.ISO8601Time{})
	tFreq = reflect.TypeOf(backend.Frequency(0))
	tPct  = reflect.TypeOf(backend.Percentage(0))
	tRaw  = reflect.TypeOf(json.RawMessage{})
	tDLS  = reflect.TypeOf(lw.DLSettings{})
)

func randString(r *RNG) string {
	alpha := []string{"a", "Z", "0", "-", ".", " ", "\"", "\\", "<", ">", "&", "/", "\n", "\t", "é", " ", " ", "\U0001F600", "\x7f", "\x01"}
	n := r.Intn(8)
	var sb strings.Builder
	for i := 0; i < n; i++ {
		sb.WriteString(alpha[r.Intn(len(alpha))])
	}
	return sb.String()
}

// fillBackend fills v with a random in-domain value.
func fillBackend(r *RNG, v reflect.Value, depth int) {
	t := v.Type()
	switch {
	case t == tHEX:
		if r.Chance(1, 4) {
			return
		}
		v.SetBytes(r.Bytes(r.Intn(20)))
	case t == tRaw:
		if r.Bool() {
			v.SetBytes([]byte(`{"a":[1,2.5,"x"],"b":null}`))
		}
	case t == tTime:
		sec := int64(r.U64()%253402300800) - 0 // year 1970..9999
		if r.Chance(1, 3) {
			sec = -int64(r.U64() % 62135596800) // back to year 1
		}
		off := (r.Intn(27*60) - 13*60) * 60
		v.Set(reflect.ValueOf(backend.ISO8601Time(time.Unix(sec, int64(r.Intn(1000000000))).In(time.FixedZone("", off)))))
	case t == tFreq:
		v.SetInt(int64(r.U32()))
	case t == tPct:
		v.SetInt(int64(r.Intn(101)))
	case t == tDLS:
		v.Set(reflect.ValueOf(lw.DLSettings{OptNeg: r.Bool(), RX2DataRate: uint8(r.Intn(16)), RX1DROffset: uint8(r.Intn(8))}))
	case t.Kind() == reflect.Struct:
		for i := 0; i < v.NumField(); i++ {
			fillBackend(r, v.Field(i), depth+1)
		}
	case t.Kind() == reflect.Ptr:
		if r.Chance(1, 3) {
			return
		}
		p := reflect.New(t.Elem())
		fillBackend(r, p.Elem(), depth+1)
		v.Set(p)
	case t.Kind() == reflect.Slice:
		if r.Chance(1, 4) {
			return
		}
		n := r.Intn(3)
		s := reflect.MakeSlice(t, n, n)
		for i := 0; i < n; i++ {
			fillBackend(r, s.Index(i), depth+1)
		}
		v.Set(s)
	case t.Kind() == reflect.Array:
		for i := 0; i < v.Len(); i++ {
			fillBackend(r, v.Index(i), depth+1)
		}
	case t.Kind() == reflect.String:
		v.SetString(randString(r))
	case t.Kind() == reflect.Bool:
		v.SetBool(r.Bool())
	case t.Kind() == reflect.Float64:
		switch r.Intn(4) {
		case 0:
			v.SetFloat(float64(r.U32()) / 1000000)
		case 1:
			v.SetFloat(math.Float64frombits(r.U64()&0x7fefffffffffffff | uint64(r.Intn(2))<<63))
		case 2:
			v.SetFloat(float64(int32(r.U32())))
		default:
			v.SetFloat(-float64(r.Intn(2000)) / 10)
		}
	case t.Kind() >= reflect.Int && t.Kind() <= reflect.Int64:
		x := int64(r.U64())
		if r.Bool() {
			x = int64(int32(r.U32())) % 100000
		}
		if v.OverflowInt(x) {
			x = x % 100
		}
		v.SetInt(x)
	case t.Kind() >= reflect.Uint && t.Kind() <= reflect.Uint64:
		x := r.U64()
		for v.OverflowUint(x) {
			x >>= 8
		}
		v.SetUint(x)
	default:
		panic("fillBackend: " + t.String())
	}
}

// diffBackend returns the path of the first difference between the original and the decoded value ("" = same).
func diffBackend(a, b reflect.Value, path string) string {
	t := a.Type()
	switch {
	case t == tHEX || t == tRaw:
		if !bytes.Equal(a.Bytes(), b.Bytes()) {
			return path
		}
	case t == tTime:
		ta, tb := time.Time(a.Interface().(backend.ISO8601Time)), time.Time(b.Interface().(backend.ISO8601Time))
		if ta.Unix() != tb.Unix() {
			return path
		}
	case t.Kind() == reflect.Struct:
		for i := 0; i < a.NumField(); i++ {
			if d := diffBackend(a.Field(i), b.Field(i), path+"."+t.Field(i).Name); d != "" {
				return d
			}
		}
	case t.Kind() == reflect.Ptr:
		if a.IsNil() != b.IsNil() {
			return path
		}
		if !a.IsNil() {
			return diffBackend(a.Elem(), b.Elem(), path)
		}
	case t.Kind() == reflect.Slice || t.Kind() == reflect.Array:
		if a.Len() != b.Len() {
			return path
		}
		for i := 0; i < a.Len(); i++ {
			if d := diffBackend(a.Index(i), b.Index(i), fmt.Sprintf("%s[%d]", path, i)); d != "" {
				return d
			}
		}
	case t.Kind() == reflect.String:
		if a.String() != b.String() {
			return path
		}
		if !utf8.ValidString(a.String()) {
			return path + " (generator produced invalid UTF-8)"
		}
	case t.Kind() == reflect.Float64:
		if math.Float64bits(a.Float()) != math.Float64bits(b.Float()) {
			return path
		}
	default:
		if !reflect.DeepEqual(a.Interface(), b.Interface()) {
			return path
		}
	}
	return ""
}
