package main

import (
	"sort"
	"fmt"
	"strconv"
	"strings"

	lw "github.com/brocaar/lorawan"
	"github.com/brocaar/lorawan/band"
)

func init() {
	generators["C12"] = genC12
	generators["C13"] = genC13
	generators["C14"] = genC14
	generators["C15"] = genC15
}

var versions = []string{"1.0.0", "1.0.1", "1.0.2", "1.0.3", "1.0.4", "1.1.0", "9.9.9"}
var revisions = []string{"A", "B", "C", "RP002-1.0.0", "RP002-1.0.1", "RP002-1.0.2", "RP002-1.0.3", "Z"}

type cfgKey struct {
	name string
	rep  int
	dw   int
}

func allCfgKeys() []cfgKey {
	var out []cfgKey
	for _, n := range bandNames {
		for rep := 0; rep < 2; rep++ {
			for dw := 0; dw < 2; dw++ {
				out = append(out, cfgKey{string(n), rep, dw})
			}
		}
	}
	return out
}

func (k cfgKey) String() string { return fmt.Sprintf("%s %d %d", k.name, k.rep, k.dw) }

func snapshotOf(k cfgKey) band.VerifSnapshot {
	b, _ := band.GetConfig(band.Name(k.name), k.rep != 0, lw.DwellTime(k.dw))
	s, _ := band.VerifSnapshotOf(b)
	return s
}

func genC12(g *Gen) {
	for _, k := range allCfgKeys() {
		s := snapshotOf(k)
		for dr := -2; dr <= 16; dr++ {
			for off := -2; off <= 9; off++ {
				g.addf("bq %s - rx1dr %d %d", k, dr, off)
			}
		}
		for i := range s.UplinkChannels {
			g.addf("bq %s - rx1chan %d", k, i)
			g.addf("bq %s - rx1freq %d", k, s.UplinkChannels[i].Channel.Frequency)
		}
		g.addf("bq %s - rx1freq %d", k, 1)
		g.addf("bq %s - rx1freq %d", k, g.r.U32())
		g.addf("bq %s - state", k)
		g.addf("bq %s - defaults", k)
		for i := 0; i < 17; i++ {
			g.addf("bq %s - dr %d", k, i)
		}
		for i := 0; i < g.scale(20, 400); i++ {
			a := g.r.U32Edge()
			t := int64(g.r.U64() >> uint(g.r.Pick(1, 8, 24, 30)))
			if i%5 == 0 {
				t = int64(g.r.Intn(100000)) * 128000000000
			}
			g.addf("bq %s - ping %d %d", k, a, t)
		}
		g.addf("bq %s - ping 0 0", k)
		g.addf("bq %s - ping 4294967295 127999999999", k)
		g.addf("bq %s - ping 7 128000000000", k)
	}
	// custom channels: RX1 of an added channel
	for i := 0; i < g.scale(100, 2000); i++ {
		k := allCfgKeys()[g.r.Intn(56)]
		f := uint32(g.r.Intn(16777216)) * 100
		g.addf("bq %s a:%d:0:5 rx1freq %d", k, f, f)
		g.addf("bq %s a:%d:0:5 rx1chan %d", k, f, g.r.Intn(100))
	}
	// ... and after histories of additions (frequency 0 placeholders included), disables and enables: every channel, both lists
	for i := 0; i < g.scale(150, 3000); i++ {
		k := allCfgKeys()[g.r.Intn(56)]
		h := g.genHistory(k, 10, false)
		n := len(snapshotOf(k).UplinkChannels) + strings.Count(h, "a:")
		if n > 24 {
			n = 24
		}
		for c := 0; c < n; c++ {
			g.addf("bq %s %s chan %d", k, h, len(snapshotOf(k).UplinkChannels)+strings.Count(h, "a:")-1-c)
		}
		g.addf("bq %s %s rx1chan %d", k, h, g.r.Intn(n+1))
	}
}

func genC13(g *Gen) {
	for _, k := range allCfgKeys() {
		s := snapshotOf(k)
		for _, v := range versions {
			for _, r := range revisions {
				for dr := -1; dr <= 15; dr++ {
					g.addf("bq %s - maxpl %s %s %d", k, v, r, dr)
				}
			}
		}
		// every key string in the other position too (a revision name as protocol version, "latest" spelled out): tables
		// filed under a key of the wrong kind are reachable only this way
		for _, v := range append([]string{"latest"}, revisions...) {
			for _, r := range []string{"latest", "RP002-1.0.0", "1.0.3", "Z"} {
				for dr := -1; dr <= 15; dr++ {
					g.addf("bq %s - maxpl %s %s %d", k, v, r, dr)
				}
			}
		}
		for i := -1; i <= 16; i++ {
			g.addf("bq %s - dr %d", k, i)
			g.addf("bq %s - txpow %d", k, i)
		}
		// look a data-rate up by its parameters, both directions
		var drIdx []int
		for idx := range s.DataRates {
			drIdx = append(drIdx, idx)
		}
		sort.Ints(drIdx) // fixed order: the op list must be a function of the seed
		for _, idx := range drIdx {
			d := s.DataRates[idx]
			for up := 0; up < 2; up++ {
				g.addf("bq %s - dridx %d %d %d %d %d %d %d", k, up, modulationCode[d.DataRate.Modulation], d.DataRate.SpreadFactor, d.DataRate.Bandwidth, d.DataRate.BitRate,
					codingRateCode[d.DataRate.CodingRate], d.DataRate.OccupiedChannelWidth)
			}
		}
		g.addf("bq %s - dridx 1 0 6 125 0 0 0", k)
		g.addf("bq %s - dridx 0 1 0 0 1 0 0", k)
		g.addf("bq %s - defaults", k)
		g.addf("bq %s - state", k)
		for _, v := range versions {
			g.addf("bq %s - txparam %s", k, v)
			g.addf("bq %s - cflist %s", k, v)
		}
		for dr := -2; dr <= 16; dr++ {
			for off := 0; off <= 7; off++ {
				g.addf("bq %s - rx1dr %d %d", k, dr, off)
			}
		}
	}
}

// genHistory returns a random history string for a band and the resulting number of channels.
func (g *Gen) genHistory(k cfgKey, maxLen int, wild bool) string {
	s := snapshotOf(k)
	n := len(s.UplinkChannels)
	l := g.r.Intn(maxLen + 1)
	if l == 0 {
		return "-"
	}
	var ops []string
	for i := 0; i < l; i++ {
		switch g.r.Intn(5) {
		case 0, 1:
			f := uint32(g.r.Intn(16777216)) * 100
			if g.r.Chance(1, 6) && n > 0 {
				f = s.UplinkChannels[g.r.Intn(len(s.UplinkChannels))].Channel.Frequency // same frequency as a standard channel
			}
			if g.r.Chance(1, 12) {
				f = 0
			}
			if k.name == "ISM2400" && !wild {
				f = 2400000000 + uint32(g.r.Intn(418))*200000
				if g.r.Bool() {
					f = 2400000000 + uint32(g.r.Intn(417501))*200 // the 200 Hz grid NewChannelReq defines from 2.4 GHz upwards
				}
			}
			if wild && g.r.Chance(1, 8) {
				f = g.r.U32()
			}
			mn, mx := 0, 5
			if g.r.Chance(1, 3) {
				mn, mx = g.r.Intn(7), g.r.Intn(8)
			}
			if wild && g.r.Chance(1, 10) {
				mn, mx = g.r.Intn(40)-20, g.r.Intn(40)-20
			}
			ops = append(ops, fmt.Sprintf("a:%d:%d:%d", f, mn, mx))
			if s.SupportsExtraChannels {
				n++
			}
		case 2, 3:
			i := g.r.Intn(n + 1)
			if wild && g.r.Chance(1, 5) {
				i = g.r.Pick(-1, -5, n, n+1, 1000, -1<<31)
			}
			ops = append(ops, "d:"+strconv.Itoa(i))
		default:
			i := g.r.Intn(n + 1)
			if wild && g.r.Chance(1, 5) {
				i = g.r.Pick(-1, n, n+3)
			}
			ops = append(ops, "e:"+strconv.Itoa(i))
		}
	}
	return strings.Join(ops, ",")
}

// channelCount runs the history on the real band to learn the number of uplink channels.
func channelCount(k cfgKey, hist string) int {
	res := execOp(fmt.Sprintf("bq %s %s state", k, hist))
	i := strings.Index(res, " all=")
	if i < 0 {
		return 0
	}
	rest := res[i+5:]
	j := strings.IndexByte(rest, ' ')
	all := rest[:j]
	if all == "-" {
		return 0
	}
	return strings.Count(all, ",") + 1
}

func (g *Gen) genDevSet(n int, enabled []int) string {
	var dev []int
	switch g.r.Intn(6) {
	case 0: // random subset
		for i := 0; i < n; i++ {
			if g.r.Bool() {
				dev = append(dev, i)
			}
		}
	case 1: // equals the network's enabled set
		dev = append(dev, enabled...)
	case 2: // one 8-channel sub-band (+ its 500 kHz channel)
		sb := g.r.Intn(8)
		for i := sb * 8; i < sb*8+8 && i < n; i++ {
			dev = append(dev, i)
		}
		if 64+sb < n {
			dev = append(dev, 64+sb)
		}
	case 3: // everything
		for i := 0; i < n; i++ {
			dev = append(dev, i)
		}
	case 4: // nothing
	default: // enabled set with a few flips
		m := map[int]bool{}
		for _, e := range enabled {
			m[e] = true
		}
		for j := 0; j < 1+g.r.Intn(4) && n > 0; j++ {
			x := g.r.Intn(n)
			m[x] = !m[x]
		}
		for i := 0; i < n; i++ {
			if m[i] {
				dev = append(dev, i)
			}
		}
	}
	if g.r.Chance(1, 3) { // order must not matter
		for i := len(dev) - 1; i > 0; i-- {
			j := g.r.Intn(i + 1)
			dev[i], dev[j] = dev[j], dev[i]
		}
	}
	return intList(dev)
}

func enabledOf(k cfgKey, hist string) []int {
	res := execOp(fmt.Sprintf("bq %s %s state", k, hist))
	i := strings.Index(res, " en=")
	if i < 0 {
		return nil
	}
	rest := res[i+4:]
	j := strings.IndexByte(rest, ' ')
	v, _ := parseIntList(rest[:j])
	return v
}

func genC14(g *Gen) {
	keys := allCfgKeys()
	n := g.scale(4000, 120000)
	for i := 0; i < n; i++ {
		k := keys[g.r.Intn(len(keys))]
		hist := g.genHistory(k, 12, false)
		cnt := channelCount(k, hist)
		en := enabledOf(k, hist)
		g.addf("bq %s %s planapply %s", k, hist, g.genDevSet(cnt, en))
	}
	// apply with arbitrary payloads (any ChMaskCntl, any mask), as a device receiving commands from elsewhere would
	for i := 0; i < g.scale(1500, 40000); i++ {
		k := keys[g.r.Intn(len(keys))]
		hist := g.genHistory(k, 6, false)
		cnt := channelCount(k, hist)
		np := 1 + g.r.Intn(4)
		var pls []string
		for j := 0; j < np; j++ {
			cntl := g.r.Intn(8)
			if g.r.Chance(1, 10) {
				cntl = g.r.Intn(256)
			}
			mask := int(g.r.U16())
			if g.r.Chance(1, 3) {
				mask &= 0xff
			}
			pls = append(pls, fmt.Sprintf("%d:%d:0:0:0", cntl, mask))
		}
		g.addf("bq %s %s apply %s %s", k, hist, g.genDevSet(cnt, nil), strings.Join(pls, ","))
	}
	// sub-band patterns on the 72 / 96 channel plans: disable everything but one sub-band
	for _, name := range []string{"US915", "AU915", "CN470"} {
		k := cfgKey{name, 0, 0}
		cnt := channelCount(k, "-")
		for sb := 0; sb*8 < cnt && sb < 12; sb++ {
			var ops []string
			for c := 0; c < cnt; c++ {
				in := c/8 == sb || (cnt == 72 && c == 64+sb)
				if !in {
					ops = append(ops, "d:"+strconv.Itoa(c))
				}
			}
			hist := strings.Join(ops, ",")
			en := enabledOf(k, hist)
			for j := 0; j < g.scale(4, 40); j++ {
				g.addf("bq %s %s planapply %s", k, hist, g.genDevSet(cnt, en))
			}
		}
	}
	// all 2^16 device subsets for plans of at most 16 channels (thorough), a sample of them otherwise
	for _, k := range []cfgKey{{"EU868", 0, 0}, {"IN865", 0, 0}, {"AS923", 0, 0}} {
		hist := "a:867100000:0:5,a:867300000:0:5,a:867500000:0:5,a:867700000:0:5,a:867900000:0:5,d:1,d:5"
		if k.name != "EU868" {
			hist = g.genHistory(k, 10, false)
		}
		cnt := channelCount(k, hist)
		if cnt > 16 {
			continue
		}
		total := 1 << uint(cnt)
		step := 1
		if !g.thorough() && total > 512 {
			step = total / 512
		}
		for m := 0; m < total; m += step {
			var dev []int
			for c := 0; c < cnt; c++ {
				if m&(1<<uint(c)) != 0 {
					dev = append(dev, c)
				}
			}
			g.addf("bq %s %s planapply %s", k, hist, intList(dev))
		}
	}
}

func genC15(g *Gen) {
	keys := allCfgKeys()
	n := g.scale(2500, 60000)
	for i := 0; i < n; i++ {
		k := keys[g.r.Intn(len(keys))]
		hist := g.genHistory(k, 30, i%3 == 0)
		cnt := channelCount(k, hist)
		g.addf("bq %s %s state", k, hist)
		for j := 0; j < 3; j++ {
			g.addf("bq %s %s chan %d", k, hist, g.r.Pick(-1, 0, cnt-1, cnt, g.r.Intn(cnt+2), -1<<31, 1<<31-1))
		}
		// every channel the band reports, carried by a NewChannelReq (the last six: custom channels are appended)
		for j := 1; j <= 6 && j <= cnt; j++ {
			g.addf("bq %s %s chanmac %d", k, hist, cnt-j)
		}
		g.addf("bq %s %s chanmac %d", k, hist, g.r.Pick(-1, 0, cnt, 255, 256))
		s := snapshotOf(k)
		f := uint32(g.r.Intn(16777216)) * 100
		if len(s.UplinkChannels) > 0 && g.r.Bool() {
			f = s.UplinkChannels[g.r.Intn(len(s.UplinkChannels))].Channel.Frequency
		}
		// frequencies that occur in the history
		if hist != "-" && g.r.Bool() {
			for _, t := range strings.Split(hist, ",") {
				if strings.HasPrefix(t, "a:") {
					x, _ := strconv.ParseUint(strings.Split(t, ":")[1], 10, 32)
					f = uint32(x)
				}
			}
		}
		g.addf("bq %s %s idx %d %d", k, hist, f, g.r.Intn(2))
		g.addf("bq %s %s idxdr %d %d", k, hist, f, g.r.Intn(9)-1)
		g.addf("bq %s %s cflist %s", k, hist, versions[g.r.Intn(len(versions))])
		g.addf("bq %s %s txpow %d", k, hist, g.r.Intn(20)-2)
		en := enabledOf(k, hist)
		g.addf("bq %s %s planapply %s", k, hist, g.genDevSet(cnt, en))
		if i%4 == 0 {
			g.addf("bq %s %s apply %s -", k, hist, intList([]int{g.r.Pick(-1, -7, cnt, cnt+5, 0)}))
		}
	}
}
