module mutgen

go 1.15
