// mutgen lists small source mutations of the non-test Go files under a directory (one JSON object per line):
// relational / logical / arithmetic / shift / bit operator swaps, integer literal +-1, dropped negation,
// `return ..., err` -> `return ..., nil`, and guards `if c { return ... }` with the condition forced to false.
// It is tooling for the mutation campaign described in DESIGN.md (section 12); it is not part of any check.
package main

import (
	"encoding/json"
	"fmt"
	"go/ast"
	"go/parser"
	"go/token"
	"io/ioutil"
	"os"
	"path/filepath"
	"strconv"
	"strings"
)

type mut struct {
	File  string `json:"file"`
	Start int    `json:"start"`
	End   int    `json:"end"`
	Old   string `json:"old"`
	New   string `json:"new"`
	Kind  string `json:"kind"`
	Line  int    `json:"line"`
	Func  string `json:"func"`
}

var swaps = map[token.Token][]token.Token{
	token.LSS: {token.LEQ, token.GTR}, token.LEQ: {token.LSS}, token.GTR: {token.GEQ, token.LSS}, token.GEQ: {token.GTR},
	token.EQL: {token.NEQ}, token.NEQ: {token.EQL}, token.LAND: {token.LOR}, token.LOR: {token.LAND},
	token.ADD: {token.SUB}, token.SUB: {token.ADD}, token.SHL: {token.SHR}, token.SHR: {token.SHL},
	token.AND: {token.OR}, token.OR: {token.AND, token.XOR}, token.XOR: {token.OR}, token.MUL: {token.QUO}, token.QUO: {token.MUL}, token.REM: {token.QUO},
}

// constNext maps a constant's name to the next constant declared in the same const ( ... ) group (cyclic): the "wrong
// sibling constant" slip (MType, CID, revision, version, modulation names ...).
var constNext = map[string]string{}

func collectConsts(root string) {
	filepath.Walk(root, func(p string, info os.FileInfo, err error) error {
		if err != nil || info.IsDir() || !strings.HasSuffix(p, ".go") || strings.HasSuffix(p, "_test.go") || strings.Contains(p, "/.git/") {
			return nil
		}
		f, err := parser.ParseFile(token.NewFileSet(), p, nil, 0)
		if err != nil {
			return nil
		}
		for _, d := range f.Decls {
			gd, ok := d.(*ast.GenDecl)
			if !ok || gd.Tok != token.CONST || len(gd.Specs) < 2 {
				continue
			}
			var names []string
			for _, sp := range gd.Specs {
				for _, n := range sp.(*ast.ValueSpec).Names {
					if n.Name != "_" {
						names = append(names, n.Name)
					}
				}
			}
			for i, n := range names {
				if len(names) > 1 {
					constNext[n] = names[(i+1)%len(names)]
				}
			}
		}
		return nil
	})
}

func main() {
	root := os.Args[1]
	enc := json.NewEncoder(os.Stdout)
	collectConsts(root)
	filepath.Walk(root, func(p string, info os.FileInfo, err error) error {
		if err != nil || info.IsDir() || !strings.HasSuffix(p, ".go") || strings.HasSuffix(p, "_test.go") {
			return nil
		}
		if strings.Contains(p, "/.git/") {
			return nil
		}
		src, _ := ioutil.ReadFile(p)
		if strings.Contains(string(src[:min(len(src), 200)]), "build verif") {
			return nil
		}
		fset := token.NewFileSet()
		f, err := parser.ParseFile(fset, p, src, 0)
		if err != nil {
			return nil
		}
		rel, _ := filepath.Rel(root, p)
		off := func(pos token.Pos) int { return fset.Position(pos).Offset }
		fn := ""
		emit := func(s, e int, nw, kind string, pos token.Pos) {
			enc.Encode(mut{File: rel, Start: s, End: e, Old: string(src[s:e]), New: nw, Kind: kind, Line: fset.Position(pos).Line, Func: fn})
		}
		text := func(n ast.Node) string { return string(src[off(n.Pos()):off(n.End())]) }
		extra := func(n ast.Node) {
			switch x := n.(type) {
			case *ast.Ident:
				if nx, ok := constNext[x.Name]; ok && x.Obj == nil {
					emit(off(x.Pos()), off(x.End()), nx, "constswap", x.Pos())
				} else if ok && x.Obj != nil && x.Obj.Kind == ast.Con && x.Obj.Pos() != x.Pos() {
					emit(off(x.Pos()), off(x.End()), nx, "constswap", x.Pos())
				}
			case *ast.CompositeLit:
				for i := 0; i+1 < len(x.Elts); i++ {
					a, b := x.Elts[i], x.Elts[i+1]
					if ka, ok := a.(*ast.KeyValueExpr); ok {
						kb, ok := b.(*ast.KeyValueExpr)
						if !ok {
							continue
						}
						a, b = ka.Value, kb.Value
					}
					if text(a) != text(b) {
						emit(off(a.Pos()), off(b.End()), text(b)+string(src[off(a.End()):off(b.Pos())])+text(a), "tableswap", a.Pos())
					}
				}
			case *ast.CallExpr:
				for i := 0; i+1 < len(x.Args); i++ {
					a, b := x.Args[i], x.Args[i+1]
					if text(a) != text(b) {
						emit(off(a.Pos()), off(b.End()), text(b)+string(src[off(a.End()):off(b.Pos())])+text(a), "argswap", a.Pos())
					}
				}
			}
		}
		for _, d := range f.Decls {
			fd, ok := d.(*ast.FuncDecl)
			if !ok || fd.Body == nil {
				// package-level tables: integer literals only
				if gd, ok := d.(*ast.GenDecl); ok && gd.Tok == token.VAR {
					fn = "(var)"
					ast.Inspect(gd, func(n ast.Node) bool {
						if n != nil {
							extra(n)
						}
						if bl, ok := n.(*ast.BasicLit); ok && bl.Kind == token.INT {
							if v, err := strconv.ParseInt(bl.Value, 0, 64); err == nil {
								emit(off(bl.Pos()), off(bl.End()), fmt.Sprint(v+1), "lit+1", bl.Pos())
							}
						}
						return true
					})
				}
				continue
			}
			fn = fd.Name.Name
			if fd.Recv != nil && len(fd.Recv.List) > 0 {
				fn = strings.TrimPrefix(string(src[off(fd.Recv.List[0].Type.Pos()):off(fd.Recv.List[0].Type.End())]), "*") + "." + fn
			}
			ast.Inspect(fd.Body, func(n ast.Node) bool {
				if n != nil {
					extra(n)
				}
				switch x := n.(type) {
				case *ast.BinaryExpr:
					for _, t := range swaps[x.Op] {
						s := off(x.OpPos)
						emit(s, s+len(x.Op.String()), t.String(), "op", x.OpPos)
					}
				case *ast.UnaryExpr:
					if x.Op == token.NOT {
						s := off(x.OpPos)
						emit(s, s+1, "", "not", x.OpPos)
					}
				case *ast.BasicLit:
					if x.Kind == token.INT {
						if v, err := strconv.ParseInt(x.Value, 0, 64); err == nil {
							emit(off(x.Pos()), off(x.End()), fmt.Sprint(v+1), "lit+1", x.Pos())
							if v > 0 {
								emit(off(x.Pos()), off(x.End()), fmt.Sprint(v-1), "lit-1", x.Pos())
							}
						}
					}
				case *ast.ReturnStmt:
					if len(x.Results) > 0 {
						if id, ok := x.Results[len(x.Results)-1].(*ast.Ident); ok && id.Name == "err" {
							emit(off(id.Pos()), off(id.End()), "nil", "droperr", id.Pos())
						}
					}
				case *ast.IfStmt:
					// a negated condition
					emit(off(x.Cond.Pos()), off(x.Cond.End()), "!("+string(src[off(x.Cond.Pos()):off(x.Cond.End())])+")", "negif", x.Cond.Pos())
					if x.Init == nil && len(x.Body.List) > 0 {
						if _, ok := x.Body.List[len(x.Body.List)-1].(*ast.ReturnStmt); ok {
							emit(off(x.Cond.Pos()), off(x.Cond.End()), "false", "guard", x.Cond.Pos())
						} else if x.Else == nil {
							// a whole conditional block dropped
							emit(off(x.Cond.Pos()), off(x.Cond.End()), "false", "delif", x.Cond.Pos())
						}
					}
				case *ast.ExprStmt:
					// a dropped call statement (copy(...), binary.PutUint32(...), append-less helpers)
					emit(off(x.Pos()), off(x.End()), "", "delstmt", x.Pos())
				case *ast.IncDecStmt:
					emit(off(x.Pos()), off(x.End()), "", "delstmt", x.Pos())
				case *ast.AssignStmt:
					if x.Tok == token.ASSIGN || x.Tok == token.OR_ASSIGN || x.Tok == token.XOR_ASSIGN || x.Tok == token.ADD_ASSIGN {
						// a dropped assignment (plain `=` only: `:=` would leave the name undeclared)
						emit(off(x.Pos()), off(x.End()), "", "delstmt", x.Pos())
					}
					if x.Tok == token.OR_ASSIGN {
						s := off(x.TokPos)
						emit(s, s+2, "&=", "op", x.TokPos)
					}
					if x.Tok == token.ADD_ASSIGN {
						s := off(x.TokPos)
						emit(s, s+2, "-=", "op", x.TokPos)
					}
				}
				return true
			})
		}
		return nil
	})
}

func min(a, b int) int {
	if a < b {
		return a
	}
	return b
}
